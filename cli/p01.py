"""C01 — a line is reported iff the pattern matches that line.

Leg `lib`: rgmon c01 (in-process, Sink::matched events vs the oracle).
Leg `cli`: `rg -a -n --no-heading [flags] -e P... file` vs the same oracle, so
that the flag -> builder mapping in hiargs.rs is inside the monitored system.
"""

import json
import os
import re
import subprocess
import tempfile

import common
from common import esc, unesc

RULE = ("cases = (1-3 patterns from a weighted random regex AST / inner-literal "
        "shapes / limit shapes / the repository's own test patterns, flag set "
        "over -i/-S/-s -w -x -F --crlf --null-data --no-unicode, input of 1-400 "
        "lines drawn from the pattern's own language (HIR-guided), mutations of "
        "those and noise incl. invalid UTF-8, bare CR, LF-only lines under "
        "--crlf, missing final terminator); every case is searched both plain "
        "and inverted through the fast path, the slow path (passthru) and the "
        "incremental reader with a tiny roll buffer. Non-trivial = the builder "
        "accepted the pattern and at least one line matches and one does not; "
        "distinct by hash of (patterns, flags, input).")

ASSUME = [
    "Rust's regex engine (regex-automata 0.4.7 from Cargo.lock) defines whether the wrapped pattern matches a line's content",
    "the oracle wraps the pattern itself per the flag documentation (-F escape, -e alternation, -w half word boundaries, -x ^(?:P)$, smart case re-implemented over the AST)",
    "under --crlf a match may not contain CR (builder documentation), so the oracle searches the CR-free stretches of the content",
    "patterns with \\A, \\z or (?-m) are excluded by the statement",
]

REC = re.compile(rb"^(\d+):", re.S)


def _cli_batch(job):
    seed, n, idx = job
    rep = common.empty_report()
    try:
        out = subprocess.run([common.RGMON, "clicases", "c01", "--seed", str(seed),
                              "--n", str(n)], stdout=subprocess.PIPE, check=True,
                             timeout=600).stdout
    except Exception as e:  # harness failure: inconclusive, not a verdict
        rep["inconclusive"] += 1
        rep["notes"].append("clicases failed: %r" % (e,))
        return rep
    cases = json.loads(out)
    tmp = tempfile.mkdtemp(prefix="c01-", dir=common.scratch_root())
    home = os.path.join(tmp, "home")
    os.makedirs(home)
    seen = set()
    for ci, case in enumerate(cases):
        data = unesc(case["input"])
        path = os.path.join(tmp, "f%d" % ci)
        with open(path, "wb") as f:
            f.write(data)
        term = case["flags"]["term"]
        sep = b"\0" if term == "nul" else b"\n"
        for invert in (False, True):
            rep["evaluations"] += 1
            args = ["-a", "-n", "--no-heading", "--color", "never", "--no-config"] + case["args"]
            if invert:
                args.append("-v")
            for p in case["patterns"]:
                args += ["-e", p]
            args.append(path)
            r = common.run_rg(args, tmp, home)
            if r is None:
                rep["inconclusive"] += 1
                continue
            status, so, se = r
            lines = case["lines"]
            expected = [l["n"] for l in lines if l["matched"] != invert]
            cnt = rep["counters"]
            cnt["rg_runs"] = cnt.get("rg_runs", 0) + 1
            cnt["term_" + term] = cnt.get("term_" + term, 0) + 1
            if not case["accepted_by_library"]:
                cnt["rejected_patterns"] = cnt.get("rejected_patterns", 0) + 1
                if status != 2:
                    _viol(rep, "C01:cli:%s:rejected-pattern-status" % term,
                          "library rejects %r but rg exits %d" % (case["patterns"], status),
                          case, invert, args, so, se, status, expected, [])
                continue
            if status == 2:
                _viol(rep, "C01:cli:%s:unexpected-error" % term,
                      "rg failed: %s" % esc(se[:200]), case, invert, args, so, se,
                      status, expected, [])
                continue
            got = []
            bad = False
            recs = so.split(sep)
            if recs and recs[-1] == b"":
                recs.pop()
            for rec in recs:
                m = REC.match(rec)
                if not m:
                    bad = True
                    break
                got.append(int(m.group(1)))
            if term == "nul" and bad:
                # a record's content may itself contain the output separator
                # only in ways we cannot parse; count, do not judge
                rep["inconclusive"] += 1
                continue
            cnt["lines_reported"] = cnt.get("lines_reported", 0) + len(got)
            nontrivial = 0 < len(expected) < len(lines)
            if nontrivial:
                key = (tuple(case["patterns"]), tuple(case["args"]), case["input"], invert)
                seen.add(hash(key))
            if bad or got != expected:
                sp = [g for g in got if g not in expected]
                ms = [e for e in expected if e not in got]
                equirk = set(l["n"] for l in lines if l.get("engine_quirk"))
                if not bad and equirk and all(n in equirk for n in sp + ms):
                    _viol(rep, "C01:regex-engine-optimised-search-differs-from-nfa-simulation",
                          "rg %s: lines %s differ; on each of them the regex library's optimised engine and its NFA simulation disagree" % (" ".join(args[6:-1]), (sp + ms)[:10]),
                          case, invert, args, so, se, status, expected, got)
                    continue
                quirk = set(l["n"] for l in lines if l.get("quirk") and not l.get("engine_quirk"))
                if not bad and quirk and all(n in quirk for n in sp + ms):
                    _viol(rep, "C01:unicode-word-boundary-next-to-invalid-utf8",
                          "rg %s: lines %s differ, all next to invalid UTF-8 under a Unicode word boundary" % (" ".join(args[6:-1]), (sp + ms)[:10]),
                          case, invert, args, so, se, status, expected, got)
                    continue
                d = "unparsable" if bad else ("spurious" if sp and not ms else ("missed" if ms and not sp else "both"))
                _viol(rep, "C01:cli:%s:%s%s" % (term, d, ":inverted" if invert else ""),
                      "rg %s reports lines %s, oracle says %s" % (" ".join(args[6:-1]), got[:10], expected[:10]),
                      case, invert, args, so, se, status, expected, got)
            want_status = 0 if expected else 1
            if status != want_status:
                _viol(rep, "C01:cli:%s:status" % term,
                      "status %d, expected %d" % (status, want_status),
                      case, invert, args, so, se, status, expected, got)
        if len(rep["samples"]) < 2:
            rep["samples"].append({"argv": ["rg", "-a", "-n", "--no-heading"] + case["args"] + sum([["-e", p] for p in case["patterns"]], []),
                                   "input": case["input"][:120],
                                   "oracle_matching_lines": [l["n"] for l in lines if l["matched"]][:20]})
        os.unlink(path)
    rep["distinct_nontrivial"] = len(seen)
    return rep


def _viol(rep, sig, what, case, invert, args, so, se, status, expected, got):
    rep["violation_counts"][sig] = rep["violation_counts"].get(sig, 0) + 1
    if rep["violation_counts"][sig] <= 2:
        rep["violations"].append({
            "signature": sig, "what": what,
            "replay": {"kind": "cli", "patterns": case["patterns"], "flags": case["flags"],
                       "args": case["args"], "input": case["input"], "invert": invert,
                       "argv": args[:-1] + ["<file>"], "stdout": esc(so[:2000]),
                       "stderr": esc(se[:500]), "status": status,
                       "expected_lines": expected, "got_lines": got}})


def cli_leg(tier, seed):
    total = 1500 if tier == "quick" else 30000
    per = 94 if tier == "quick" else 200
    jobs = [(common.mix(seed, "c01cli", i) & 0xFFFFFFFF, per, i) for i in range(total // per)]
    reps = common.par_map(_cli_batch, jobs)
    out = common.empty_report()
    for r in reps:
        out["evaluations"] += r["evaluations"]
        out["distinct_nontrivial"] += r["distinct_nontrivial"]
        for k, v in r["counters"].items():
            out["counters"][k] = out["counters"].get(k, 0) + v
        out["samples"] += r["samples"][:1]
        out["violations"] += r["violations"]
        for k, v in r["violation_counts"].items():
            out["violation_counts"][k] = out["violation_counts"].get(k, 0) + v
        out["inconclusive"] += r["inconclusive"]
        out["notes"] += r["notes"]
    out["samples"] = out["samples"][:3]
    return out


def check(tier, seed, t0):
    common.build_harness()
    common.build_rg()
    parts = [("lib", common.run_rgmon("c01", tier, seed)),
             ("cli", cli_leg(tier, seed))]
    rep = common.merge_reports(parts)
    return common.finalize("C01", tier, seed, "exploration", RULE, rep, t0, ASSUME,
                           floor_eval=1000, floor_distinct=500)


def replay(path):
    with open(path) as f:
        body = json.load(f)
    rp = body.get("replay", body)
    if rp.get("kind") == "cli":
        common.build_rg()
        tmp = tempfile.mkdtemp(prefix="c01r-", dir=common.scratch_root())
        fpath = os.path.join(tmp, "f")
        with open(fpath, "wb") as f:
            f.write(unesc(rp["input"]))
        args = rp["argv"][:-1] + [fpath]
        r = common.run_rg(args, tmp, tmp)
        print("argv:", args)
        print("status/stdout:", r[0], esc(r[1][:2000]))
        print("expected lines:", rp["expected_lines"])
        return 0
    common.build_harness()
    p = subprocess.run([common.RGMON, "replay", "c01", path])
    return p.returncode
