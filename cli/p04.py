"""C04 — ignore files mean what git says they mean.

git is the executable specification: in a generated repository
`rg --files --hidden --no-ignore-dot --no-ignore-exclude --no-ignore-global
-g '!.git/'` must list exactly what `git ls-files --others --exclude-standard`
lists. A second leg checks `Gitignore::matched_path_or_any_parents` style
decisions indirectly through per-path `git check-ignore` attribution in the
replay.
"""

import json
import os
import subprocess

import common
from common import esc

RULE = ("cases = generated git repositories: 5-45 entries, depth <= 4, names from a pool with dots, dashes, upper "
        "case, leading/trailing dots, spaces and glob-looking names ('*', 'a[b]', '#c', '!d', 'a b', 'a.', '.a.'); "
        "1-4 .gitignore files at random directory levels with 1-7 lines each, derived from the tree's own paths so "
        "that they hit: literals, '*', '?', classes/negated classes/ranges, '**/' prefix, '/**' suffix, '/**/' "
        "infix, leading and inner '/', trailing '/', '!' negation (incl. re-including below an ignored directory), "
        "backslash escapes, '#' comments, trailing blanks and escaped trailing blanks; one repository in five with "
        "--ignore-file-case-insensitive vs core.ignoreCase=true. Oracle: set equality of rg's and git's listings "
        "(NUL separated). Non-trivial = git ignores at least one file and lists at least one; distinct by hash of "
        "(tree, ignore files, flag).")

ASSUME = [
    "git 2.39 (`ls-files --others --exclude-standard -z`) is the specification",
    "outside the generated grammar: POSIX bracket classes, tabs as blanks, non-UTF-8 ignore files, and '**' glued to other characters (gitignore(5) calls those regular asterisks, git 2.39 itself deviates for 'a**/*'), symlinks",
    "environment pinned: empty HOME/XDG, GIT_CONFIG_GLOBAL=/dev/null, no global excludes",
]

NAMES = ["a", "b", "ab", "a.b", "A", "x-y", ".h", "a.", ".a.", "*", "a[b]", "a b", "#c", "!d",
         "foo", "foo.rs", "Foo.RS", "bar", "b.c.d", "-x", "a?", "dir", "d.e", "B", "aB", "src", "z z", "a\\b"]


def gen_tree(rng):
    """returns (dirs, files) as relative paths"""
    dirs, files = [], []

    def rec(prefix, depth):
        n = rng.range(1, 6) if depth == 0 else rng.below(5)
        names = rng.sample(NAMES, min(n, len(NAMES)))
        for name in names:
            p = name if not prefix else prefix + "/" + name
            if len(dirs) + len(files) > 45:
                return
            if depth < 4 and rng.chance(2, 5):
                dirs.append(p)
                rec(p, depth + 1)
            else:
                files.append(p)
    rec("", 0)
    return dirs, files


SPECIAL = set("*?[]\\#! ")


def escape_lit(s, at_start=True):
    out = []
    for i, ch in enumerate(s):
        if ch in "*?[\\":
            out.append("\\" + ch)
        elif ch in "#!" and i == 0 and at_start:
            out.append("\\" + ch)
        else:
            out.append(ch)
    r = "".join(out)
    # trailing space must be escaped to survive
    if r.endswith(" "):
        r = r[:-1] + "\\ "
    return r


CI = [False]


def wildcardify(rng, name):
    """turn a name into a pattern that still matches it"""
    k = rng.below(8)
    if not name:
        return "*"
    if k == 0:
        i = rng.below(len(name))
        return escape_lit(name[:i], True) + "?" + escape_lit(name[i + 1:], False)
    if k == 1:
        i = rng.below(len(name) + 1)
        return escape_lit(name[:i], True) + "*"
    if k == 2:
        i = rng.below(len(name) + 1)
        return "*" + escape_lit(name[i:], False)
    if k == 3 and "." in name:
        return "*" + escape_lit(name[name.rindex("."):], False)
    if k == 4:
        i = rng.below(len(name))
        c = name[i]
        if c in "]\\^!-[/" or c == " ":
            return escape_lit(name)
        # git 2.39's wildmatch lower-cases the text but not a single class
        # member under core.ignoreCase, so '[A]' does not match 'A' there: a
        # git quirk, kept out of the case-insensitive repositories
        if CI[0] and c.isupper():
            return escape_lit(name)
        form = rng.below(4)
        if form == 0:
            cls = "[" + c + "]"
        elif form == 1:
            cls = "[" + c + "q]"
        elif form == 2:
            cls = "[!" + ("q" if c != "q" else "r") + "]"
        else:
            lo = chr(max(33, ord(c) - 1))
            hi = chr(min(126, ord(c) + 1))
            if lo in "]\\^!-[/" or hi in "]\\^!-[/":
                cls = "[" + c + "]"
            else:
                cls = "[" + lo + "-" + hi + "]"
        return escape_lit(name[:i], True) + cls + escape_lit(name[i + 1:], False)
    if k == 5:
        i = rng.below(len(name))
        j = rng.range(i, len(name))
        return escape_lit(name[:i], True) + "*" + escape_lit(name[j:], False)
    return escape_lit(name)


def gen_pattern(rng, base, dirs, files, prev):
    """a .gitignore line for the ignore file in directory `base` ('' = root)"""
    under = [p for p in dirs + files if (not base or p.startswith(base + "/"))]
    if not under or rng.chance(1, 12):
        return rng.pick(["# comment", "", "zzz", "*.none", "#c", "\\#c", "!nothing", "   ", "q/"])
    target = rng.pick(under)
    rel = target[len(base) + 1:] if base else target
    comps = rel.split("/")
    is_dir = target in dirs
    k = rng.below(15)
    if k >= 12 and len(comps) > 2:
        # two `**/` literals, one a suffix of the other, with opposite
        # polarity on consecutive lines: last match wins (where the tree is
        # deep enough the longer one is still shorter than the path, so that
        # only the suffix matching of a glob set sees them)
        if len(comps) > 3:
            j1 = rng.range(2, len(comps) - 2)
            j2 = rng.range(j1 + 1, len(comps) - 1)
        else:
            j1, j2 = 2, 3
        a = "**/" + "/".join(escape_lit(c, False) for c in comps[-j1:])
        b = "**/" + "/".join(escape_lit(c, False) for c in comps[-j2:])
        return rng.pick([a + "\n!" + b, b + "\n!" + a, "!" + a + "\n" + b])
    if k == 0:
        pat = escape_lit(comps[-1])                       # basename literal, matches at any depth
    elif k == 1:
        pat = wildcardify(rng, comps[-1])
    elif k == 2:
        pat = "/" + "/".join(escape_lit(c, i == 0) for i, c in enumerate(comps))   # anchored full path
    elif k == 3 and len(comps) > 1:
        pat = "/".join(escape_lit(c, i == 0) for i, c in enumerate(comps))         # inner slash anchors
    elif k == 4:
        pat = "**/" + wildcardify(rng, comps[-1])
    elif k == 5 and len(comps) > 1:
        pat = escape_lit(comps[0]) + "/**"
    elif k == 6 and len(comps) > 2:
        pat = escape_lit(comps[0]) + "/**/" + escape_lit(comps[-1], False)
    elif k == 7 and len(comps) > 1:
        i = rng.below(len(comps))
        cs = [escape_lit(c, j == 0) for j, c in enumerate(comps)]
        cs[i] = "*"
        pat = "/".join(cs)
    elif k == 8 and prev:
        p = rng.pick(prev)
        pat = p[1:] if p.startswith("!") else "!" + p      # negate an earlier line
        return pat
    elif k == 9:
        pat = "/" + wildcardify(rng, comps[0])
    elif k == 10 and len(comps) > 1:
        pat = escape_lit(comps[-2]) + "/" + wildcardify(rng, comps[-1])
    else:
        pat = wildcardify(rng, comps[rng.below(len(comps))])
    if (is_dir or rng.chance(1, 6)) and rng.chance(1, 2) and not pat.endswith("/"):
        pat += "/"                                          # directory only
    if rng.chance(1, 8):
        pat = "!" + pat
    if rng.chance(1, 15) and not pat.endswith("\\ "):
        pat += "  "                                         # trailing blanks are stripped
    return pat


def shape(pat):
    s = []
    if pat.startswith("!"):
        s.append("neg")
    if "**" in pat:
        s.append("dstar")
    if pat.rstrip(" ").endswith("/"):
        s.append("dironly")
    if "[" in pat:
        s.append("class")
    if "\\" in pat:
        s.append("esc")
    body = pat.lstrip("!")
    if body.startswith("/") or "/" in body.rstrip("/ ")[1:]:
        s.append("anchored")
    if "*" in pat.replace("**", "") or "?" in pat:
        s.append("wild")
    return "+".join(s) or "literal"


def cli_case(case, env):
    rep = env.rep
    rng = common.Rng(case["seed"])
    rep["evaluations"] += 1
    ci = rng.chance(1, 5)
    CI[0] = ci
    repo = os.path.join(env.tmp, "r")
    os.makedirs(repo)
    dirs, files = gen_tree(rng)
    for d in dirs:
        os.makedirs(os.path.join(repo, d), exist_ok=True)
    for f in files:
        os.makedirs(os.path.dirname(os.path.join(repo, f)) or repo, exist_ok=True)
        with open(os.path.join(repo, f), "w") as fh:
            fh.write("x\n")
    nig = rng.range(1, 4)
    igdirs = [""] + rng.sample(dirs, min(len(dirs), nig - 1))
    igfiles = {}
    for base in igdirs:
        lines = []
        for _ in range(rng.range(1, 7)):
            lines.append(gen_pattern(rng, base, dirs, files, [l for l in lines if l and not l.startswith("#")]))
        igfiles[base] = lines
        p = os.path.join(repo, base, ".gitignore")
        if os.path.isdir(os.path.dirname(p)):
            with open(p, "w") as fh:
                fh.write("\n".join(lines) + "\n")
    genv = common.rg_env(env.home)
    try:
        subprocess.run(["git", "init", "-q", repo], env=genv, check=True, stdout=subprocess.DEVNULL,
                       stderr=subprocess.DEVNULL, timeout=60)
        gcmd = ["git"] + (["-c", "core.ignoreCase=true"] if ci else []) + ["ls-files", "--others", "--exclude-standard", "-z"]
        g = subprocess.run(gcmd, cwd=repo, env=genv, stdout=subprocess.PIPE, stderr=subprocess.PIPE, timeout=60)
    except Exception as e:
        env.inconclusive("git failed: %r" % (e,))
        return
    if g.returncode != 0:
        env.inconclusive("git ls-files failed: %s" % g.stderr[:200])
        return
    rargs = ["--files", "--hidden", "--no-ignore-dot", "--no-ignore-exclude", "--no-ignore-global", "--no-config",
             "-g", "!.git/", "--null", "-j1"] + (["--ignore-file-case-insensitive"] if ci else [])
    # the same repository named in different ways: no path, "./", by name
    # from the parent directory with and without a trailing slash, by
    # absolute path with and without one, or one of its sub directories (the
    # rules of the directories above it still apply)
    gitset = set(x for x in g.stdout.split(b"\0") if x)
    parent, name = os.path.dirname(repo), os.path.basename(repo)
    form = rng.below(7)
    sub = None
    if form == 0:
        cwd, paths, strip = repo, [], b""
    elif form == 1:
        cwd, paths, strip = repo, ["./"], b"./"
    elif form == 2:
        cwd, paths, strip = parent, [name], name.encode() + b"/"
    elif form == 3:
        cwd, paths, strip = parent, [name + "/"], name.encode() + b"/"
    elif form == 4:
        cwd, paths, strip = parent, [repo], repo.encode() + b"/"
    elif form == 5:
        cwd, paths, strip = parent, [repo + "/"], repo.encode() + b"/"
    else:
        cands = [d for d in dirs if os.path.isdir(os.path.join(repo, d))]
        sub = rng.pick(cands) if cands else None
        if sub is not None:
            # a root that git itself ignores is still searched when it is
            # named explicitly (C05): not a case for this oracle
            try:
                ign = subprocess.run(["git"] + (["-c", "core.ignoreCase=true"] if ci else []) +
                                     ["check-ignore", "--", sub, sub + "/"], cwd=repo, env=genv,
                                     stdout=subprocess.DEVNULL, stderr=subprocess.DEVNULL, timeout=60).returncode != 1
            except Exception:
                ign = True
            if ign:
                env.count("sub_root_ignored_by_git_not_used")
                sub = None
        if sub is not None:
            shown = sub if not sub.startswith("-") else "./" + sub
            cwd, paths, strip = repo, [shown + rng.pick(["", "/"])], b""
            gitset = set(x for x in gitset if x.startswith(sub.encode() + b"/"))
        else:
            cwd, paths, strip = repo, [], b""
    env.count("root_form_%d" % form)
    rargs = rargs + paths
    r = common.run_rg(rargs, cwd, env.home)
    if r is None:
        env.inconclusive("watchdog")
        return
    env.count("repositories")

    def norm(x):
        if strip and x.startswith(strip):
            x = x[len(strip):]
        if x.startswith(b"./"):
            x = x[2:]
        return x.replace(b"//", b"/")
    rgset = set(norm(x) for x in r[1].split(b"\0") if x)
    allfiles = len(files) + len(igfiles)
    env.count("files_listed_by_git", len(gitset))
    env.count("files_ignored_by_git", allfiles - len(gitset))
    for lines in igfiles.values():
        for l in lines:
            env.count("pattern_shape_" + shape(l))
    if ci:
        env.count("case_insensitive_repositories")
    if gitset and len(gitset) < allfiles:
        env.nontrivial((tuple(sorted(files)), tuple(sorted((k, tuple(v)) for k, v in igfiles.items())), ci))
    if gitset != rgset:
        only_rg = sorted(rgset - gitset)
        only_git = sorted(gitset - rgset)
        wit = (only_rg or only_git)[0]
        # attribute: which pattern does git hold responsible for the witness
        attrib = ""
        try:
            ck = subprocess.run(["git"] + (["-c", "core.ignoreCase=true"] if ci else []) +
                                ["check-ignore", "-v", "--no-index", wit.decode("utf-8", "replace")],
                                cwd=repo, env=genv, stdout=subprocess.PIPE, stderr=subprocess.PIPE, timeout=60)
            attrib = ck.stdout.decode("utf-8", "replace").strip()
        except Exception:
            pass
        pat = attrib.split("\t")[0].split(":", 2)[-1] if attrib else ""
        sig = "C04:%s:%s" % ("rg-lists-what-git-ignores" if only_rg else "rg-skips-what-git-lists",
                             shape(pat) if pat else "no-single-pattern")
        env.viol(sig,
                 "%s: rg lists %s / git lists %s; git attributes %r%s" % (
                     "case-insensitive" if ci else "case-sensitive",
                     [esc(x) for x in only_rg[:4]], [esc(x) for x in only_git[:4]], attrib,
                     ""),
                 {"kind": "cli", "dirs": dirs, "files": files, "gitignores": igfiles, "case_insensitive": ci,
                  "only_rg": [esc(x) for x in only_rg], "only_git": [esc(x) for x in only_git],
                  "git_check_ignore": attrib, "rg_argv": rargs})
    env.sample({"files": files[:12], "gitignores": igfiles, "case_insensitive": ci,
                "git_lists": len(gitset), "of": allfiles})


def check(tier, seed, t0):
    common.build_rg()
    total = 1200 if tier == "quick" else 40000
    rep = common.merge_reports([("cli", common.run_cli_cases(None, cli_case, seed, "c04", total, 75 if tier == "quick" else 200))])
    return common.finalize("C04", tier, seed, "exploration", RULE, rep, t0, ASSUME, floor_eval=100, floor_distinct=40)


def replay(path):
    with open(path) as f:
        body = json.load(f)
    print(json.dumps(body.get("replay", body), indent=1)[:6000])
    return 0
