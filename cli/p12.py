"""C12 — a glob set answers like its member globs; globs mean what is
documented. Decided in-process (rgmon c12)."""

import rustonly

RULE = ("globs = ALL sequences of up to 3 (quick) / 4 (thorough) tokens from {a b . - A / ? * ** [ab] [!a] [a-b] "
        "{a,b} {a,*.b} \\* [.]} ('**' only as a whole component), compiled under option sets drawn from the 16 "
        "combinations of case_insensitive x literal_separator x backslash_escape x empty_alternates, grouped into "
        "sets of 8 plus up to 4 random foreign globs (so that every set mixes strategies); paths = ALL strings over "
        "{a,b,.,/,-,A} up to length 5 (quick: every path to length 4 plus a random quarter of length 5; thorough: "
        "all to length 6) plus 40 random longer / non-UTF-8 byte paths per set. Oracle 1: GlobSet::matches and "
        "is_match vs the individually compiled GlobMatchers. Oracle 2: each (glob, path) vs an independent "
        "backtracking matcher written from the globset documentation, evaluated under every reading of what the "
        "documentation leaves open (undetermined pairs are counted and skipped). evaluations = (glob, path) pairs; "
        "non-trivial = a glob that matched some path and rejected another; distinct by (glob, options).")

ASSUME = [
    "the documentation of globset (crate docs + GlobBuilder options) is the specification for oracle 2",
    "'**/' alone and two adjacent '**' components are not described by the documentation and are left out of oracle 2 (still in oracle 1)",
    "evaluation counts of the seven strategies are approximated by glob shape, GlobSet does not expose the strategy chosen",
]


def check(tier, seed, t0):
    extra = []
    if tier == "thorough":
        import sanitize
        extra = [("miri", sanitize.miri_leg("C12", 2, shards=8))]
    return rustonly.check("C12", tier, seed, t0, "exploration", RULE, ASSUME, 1_000_000, 1000, extra_legs=extra)


def replay(path):
    return rustonly.replay("C12", path)
