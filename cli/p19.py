"""C19 — replacement output equals the regex library's replace-all of each
matching line.

rgmon (linking regex 1.10.6, the library named by the property) computes, per
line, `Regex::replace_all(content, template)` and the per-match expansions;
this monitor runs `rg -r` in several modes and compares."""

import json
import os
import re
import subprocess

import common
from common import esc, unesc

RULE = ("cases = (pattern with capture groups: optional, nested, named, alternated, empty-matching, from a pool of "
        "20 shapes plus random ASTs; replacement template of 1-4 pieces over $N ${N} $name ${name} $$ stray '$' "
        "unclosed '${' text backslash, occasionally a braced name with odd characters; input of 1-12 lines over a "
        "dense small alphabet, LF or CRLF, with or without final terminator; flags -i/-w). Modes: -r T (every "
        "matching line = replace_all(content, T) + terminator), -o -r T (one record per match = its expansion), "
        "-r T -C1, -v -C1 -r T, -m1 -A3 -r T and -m2 -C2 -r T (every printed line, matching or context, equals replace_all of its original; "
        "lines without a match unaltered), --column -r T (column = first match start + 1 in the ORIGINAL line), "
        "-U --passthru -r T (= replace_all over the whole input). Non-trivial = at least one line matches and "
        "the replacement changes it; distinct by (pattern, template, flags, input).")

ASSUME = [
    "regex::bytes::Regex 1.10.6 (from Cargo.lock) is the specification of replace_all and of template expansion",
    "inputs contain CR only as part of CRLF terminators",
]


def rec_lines(out, nl):
    recs = out.split(b"\n")
    if recs and recs[-1] == b"":
        recs.pop()
    return recs


def cli_case(case, env):
    """judge against the library's reading; where the template has a braced
    reference with an odd name and that fails, judge against ripgrep's
    documented-by-its-tests reading (the reference stands for itself): only
    if THAT holds is the disagreement the recorded finding"""
    cache = {}
    found = []
    _evaluate(case, env, cache, found, True)
    known = False
    if found and case["odd_braced_reference"]:
        alt = dict(case)
        alt["lines"] = [dict(l, replaced=l["replaced_alt"], expansions=l["expansions_alt"]) for l in case["lines"]]
        alt["whole_input_replaced"] = case.get("whole_input_replaced_alt")
        found_alt = []
        _evaluate(alt, env, cache, found_alt, False)
        known = not found_alt
    for mode, what, d in found:
        sig = "C19:braced-reference-with-odd-name" if known else "C19:%s" % mode
        env.viol(sig, what, d)


def _evaluate(case, env, cache, found, primary):
    rep = env.rep
    data = unesc(case["input"])
    path = env.write("f.txt", data)
    crlf = case["term"] == "crlf"
    nl = b"\r\n" if crlf else b"\n"
    lines = case["lines"]
    T = case["template"]
    base = ["-a", "--no-config", "--color", "never", "--no-heading"] + case["args"]
    pat = ["-e", case["pattern"]]
    odd = case["odd_braced_reference"]
    rp = {"kind": "cli", "pattern": case["pattern"], "template": T, "args": case["args"], "input": case["input"]}

    def viol(mode, what, extra=None):
        d = dict(rp)
        d["mode"] = mode
        if extra:
            d.update(extra)
        found.append((mode, "pattern %r template %r %s: %s" % (case["pattern"], T, " ".join(case["args"]), what), d))

    def run(extra):
        key = tuple(extra)
        if key in cache:
            return cache[key]
        rep["evaluations"] += 1
        r = common.run_rg(base + extra + pat + [path], env.tmp, env.home)
        if r is None:
            env.inconclusive("watchdog")
        else:
            env.count("rg_runs")
        cache[key] = r
        return r

    matching = [l for l in lines if l["matched"]]
    changed = any(l["replaced"] != l["content"] for l in matching)
    if matching and changed and primary:
        env.nontrivial((case["pattern"], T, tuple(case["args"]), case["input"]))
    # A: -r T
    r = run(["-N", "-r", T])
    if r is not None:
        want = b"".join(unesc(l["replaced"]) + nl for l in matching)
        if r[1] != want:
            viol("replace-matching-lines", "stdout %s, library says %s" % (esc(r[1][:120]), esc(want[:120])),
                 {"stdout": esc(r[1][:2000]), "expected": esc(want[:2000])})
    # A2: --max-columns applies to what is printed, i.e. to the replaced line
    if not crlf:
        ncol = 6 + (len(case["input"]) + len(T)) % 12
        r = run(["-N", "--max-columns", str(ncol), "-r", T])
        if r is not None:
            got = rec_lines(r[1], nl)
            ok = len(got) == len(matching)
            for g, l in zip(got, matching):
                repl = unesc(l["replaced"])
                if len(repl) <= ncol:
                    ok = ok and g == repl
                else:
                    ok = ok and g.startswith(b"[Omitted long ")
            if not ok:
                viol("max-columns-replaced-lines",
                     "--max-columns %d: stdout %s; library lines %s" % (ncol, esc(r[1][:160]), [l["replaced"][:40] for l in matching][:4]),
                     {"stdout": esc(r[1][:2000]), "max_columns": ncol})
        r = run(["-N", "-o", "--max-columns", str(ncol), "-r", T])
        if r is not None:
            exps = [unesc(e) for l in matching for e in l["expansions"]]
            got = rec_lines(r[1], nl)
            # every expansion that fits is printed as it is, in order
            fit = [e for e in exps if len(e) <= ncol and b"\n" not in e]
            shown = [g for g in got if not g.startswith(b"[Omitted long ")]
            if all(b"\n" not in e for e in exps) and shown != fit:
                viol("max-columns-only-matching", "--max-columns %d -o: stdout %s; library expansions %s" % (
                    ncol, esc(r[1][:160]), [esc(e[:30]) for e in exps][:6]), {"stdout": esc(r[1][:2000]), "max_columns": ncol})
    # B: -o -r T
    r = run(["-N", "-o", "-r", T])
    if r is not None:
        want = b"".join(unesc(e) + nl for l in matching for e in l["expansions"])
        if r[1] != want:
            viol("only-matching-expansions", "stdout %s, library expansions %s" % (esc(r[1][:120]), esc(want[:120])),
                 {"stdout": esc(r[1][:2000]), "expected": esc(want[:2000])})
    # C: context and inverted context: every printed line is the replace_all of its original
    for mode, extra in (("context", ["-n", "-C1", "-r", T]), ("inverted-context", ["-n", "-v", "-C1", "-r", T]),
                        # a match limit with trailing context: matching lines
                        # inside the window of the last counted match are
                        # still printed, and still replaced
                        ("limit-after-context", ["-n", "-m1", "-A3", "-r", T]),
                        ("limit-context", ["-n", "-m2", "-C2", "-r", T])):
        r = run(extra)
        if r is None:
            continue
        byn = {l["n"]: l for l in lines}
        for rec in rec_lines(r[1], nl):
            if rec in (b"--", b"--\r"):
                continue
            m = re.match(rb"^(\d+)([:-])", rec)
            if not m or int(m.group(1)) not in byn:
                viol(mode, "unparsable record %s" % esc(rec[:80]))
                break
            l = byn[int(m.group(1))]
            text = rec[m.end():]
            if crlf and text.endswith(b"\r"):
                text = text[:-1]
            env.count("context_mode_lines_checked")
            if text != unesc(l["replaced"]):
                viol(mode, "line %d printed as %s, library replace_all gives %s (original %s)" % (
                    l["n"], esc(text[:80]), l["replaced"][:80], l["content"][:80]))
                break
    # D: --column with replacement: column refers to the original line
    r = run(["-n", "--column", "-r", T])
    if r is not None:
        for rec in rec_lines(r[1], nl):
            m = re.match(rb"^(\d+):(\d+):", rec)
            if not m:
                viol("column", "unparsable record %s" % esc(rec[:80]))
                break
            l = next((x for x in lines if x["n"] == int(m.group(1))), None)
            if l is None or l["first_match_start"] is None:
                viol("column", "record for a line without a match: %s" % esc(rec[:80]))
                break
            if int(m.group(2)) != l["first_match_start"] + 1:
                viol("column", "line %d column %s, first match starts at %d" % (l["n"], m.group(2).decode(), l["first_match_start"] + 1))
                break
    # E: multi-line, whole input
    if case["whole_input_replaced"] is not None and not crlf:
        r = run(["-N", "-U", "--passthru", "-r", T])
        if r is not None and r[0] != 2:
            want = unesc(case["whole_input_replaced"])
            got = r[1]
            # rg terminates the last printed line when the input's last line
            # has no terminator
            alt = want
            if not data.endswith(b"\n"):
                want += b"\n"
            # (an unterminated last line that becomes empty prints nothing at
            # all in multi-line mode; both are "the replaced line")
            if got != want and got != alt:
                viol("multiline-passthru", "stdout %s, library replace_all over the whole input %s" % (esc(got[:120]), esc(want[:120])),
                     {"stdout": esc(got[:2000]), "expected": esc(want[:2000])})
    env.sample({"argv": ["rg"] + case["args"] + ["-r", T, "-e", case["pattern"]], "input": case["input"][:100],
                "library": [l["replaced"] for l in matching][:4]})


def check(tier, seed, t0):
    common.build_harness()
    common.build_rg()
    total = 2000 if tier == "quick" else 80000
    rep = common.merge_reports([("cli", common.run_cli_cases("c19", cli_case, seed, "c19", total, 125 if tier == "quick" else 300))])
    return common.finalize("C19", tier, seed, "exploration", RULE, rep, t0, ASSUME, floor_eval=500, floor_distinct=100)


def replay(path):
    with open(path) as f:
        body = json.load(f)
    print(json.dumps(body.get("replay", body), indent=1)[:6000])
    return 0
