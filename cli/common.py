"""Shared machinery of the /verif driver: builds, report merging, known
findings, replay files, evidence files, verdict discipline."""

import fcntl
import hashlib
import json
import os
import shutil
import subprocess
import sys
import tempfile
import time

VERIF = os.path.dirname(os.path.dirname(os.path.abspath(__file__)))
REPO = os.environ.get("VERIF_REPO", "/repo")
TARGET = os.path.join(VERIF, "target")
RGMON = os.path.join(TARGET, "harness", "release", "rgmon")
RG = os.path.join(TARGET, "rg", "release", "rg")
NCPU = os.cpu_count() or 4

CARGO_ENV = dict(os.environ, CARGO_NET_OFFLINE="true", CARGO_TERM_COLOR="never")


class Broken(Exception):
    """The check itself could not run (build failure, tool missing): exit 3,
    never a VIOLATION."""


def log(msg):
    sys.stderr.write(msg + "\n")
    sys.stderr.flush()


class _Lock:
    def __init__(self, name):
        os.makedirs(TARGET, exist_ok=True)
        self.path = os.path.join(TARGET, name)

    def __enter__(self):
        self.f = open(self.path, "w")
        fcntl.flock(self.f, fcntl.LOCK_EX)
        return self

    def __exit__(self, *a):
        fcntl.flock(self.f, fcntl.LOCK_UN)
        self.f.close()


def _run_build(cmd, cwd, env, what):
    t0 = time.time()
    p = subprocess.run(cmd, cwd=cwd, env=env, stdout=subprocess.PIPE,
                       stderr=subprocess.STDOUT, text=True)
    if p.returncode != 0:
        log(p.stdout[-6000:])
        raise Broken("build of %s failed" % what)
    log("[build] %s ok in %.1fs" % (what, time.time() - t0))


def build_harness():
    """Rebuild rgmon against /repo's current working tree (path deps, hooks
    enabled through the crate features)."""
    with _Lock(".lock-harness"):
        env = dict(CARGO_ENV, CARGO_TARGET_DIR=os.path.join(TARGET, "harness"))
        _run_build(["cargo", "build", "--release", "--offline"],
                   os.path.join(VERIF, "harness"), env, "rgmon harness")
    return RGMON


def build_rg():
    """Rebuild the rg binary (plain release, hooks off: the code that
    ships) from /repo's current working tree."""
    with _Lock(".lock-rg"):
        env = dict(CARGO_ENV, CARGO_TARGET_DIR=os.path.join(TARGET, "rg"))
        _run_build(["cargo", "build", "--release", "--offline", "--bin", "rg"],
                   REPO, env, "rg (release)")
    return RG


def build_rg_sanitizer(kind):
    """ASan / TSan builds of rg (thorough tiers only)."""
    tdir = os.path.join(TARGET, "rg-" + kind)
    with _Lock(".lock-rg-" + kind):
        env = dict(CARGO_ENV, CARGO_TARGET_DIR=tdir)
        if kind == "asan":
            env["RUSTFLAGS"] = "-Zsanitizer=address -Cforce-frame-pointers=yes"
            cmd = ["cargo", "+nightly", "build", "--release", "--offline",
                   "--bin", "rg", "--target", "x86_64-unknown-linux-gnu"]
        elif kind == "tsan":
            env["RUSTFLAGS"] = "-Zsanitizer=thread"
            cmd = ["cargo", "+nightly", "build", "--release", "--offline",
                   "--bin", "rg", "-Zbuild-std",
                   "--target", "x86_64-unknown-linux-gnu"]
        else:
            raise Broken("unknown sanitizer " + kind)
        _run_build(cmd, REPO, env, "rg (" + kind + ")")
    return os.path.join(tdir, "x86_64-unknown-linux-gnu", "release", "rg")


def empty_report():
    return {"evaluations": 0, "distinct_nontrivial": 0, "counters": {},
            "samples": [], "violations": [], "violation_counts": {},
            "inconclusive": 0, "notes": []}


def run_rgmon(prop, tier, seed, extra=None, timeout=7200):
    """Run one rgmon property leg and return its report dict."""
    fd, out = tempfile.mkstemp(prefix="rgmon-", suffix=".json",
                               dir=os.path.join(TARGET))
    os.close(fd)
    cmd = [RGMON, prop, "--tier", tier, "--seed", str(seed), "--out", out]
    if extra:
        cmd += extra
    env = dict(os.environ, RGMON_TMP=scratch_root())
    try:
        p = subprocess.run(cmd, stdout=subprocess.PIPE, stderr=subprocess.PIPE,
                           text=True, timeout=timeout, env=env)
    except subprocess.TimeoutExpired:
        rep = empty_report()
        rep["inconclusive"] = 1
        rep["notes"].append("rgmon %s: watchdog expired after %ds" % (prop, timeout))
        return rep
    try:
        if p.returncode != 0:
            log(p.stderr[-4000:])
            raise Broken("rgmon %s exited with %d" % (prop, p.returncode))
        with open(out) as f:
            return json.load(f)
    finally:
        try:
            os.unlink(out)
        except OSError:
            pass


_SCRATCH = None


def scratch_root():
    """A private scratch directory outside /repo and /verif, removed at exit."""
    global _SCRATCH
    if _SCRATCH is None:
        base = os.environ.get("VERIF_SCRATCH", "/tmp")
        _SCRATCH = tempfile.mkdtemp(prefix="verif-", dir=base)
        import atexit
        atexit.register(lambda: shutil.rmtree(_SCRATCH, ignore_errors=True))
    return _SCRATCH


def merge_reports(parts):
    """parts: list of (leg name, report dict)."""
    total = empty_report()
    total["legs"] = {}
    for name, r in parts:
        total["evaluations"] += r.get("evaluations", 0)
        total["distinct_nontrivial"] += r.get("distinct_nontrivial", 0)
        for k, v in r.get("counters", {}).items():
            total["counters"]["%s.%s" % (name, k)] = v
        for s in r.get("samples", []):
            if len(total["samples"]) < 8:
                total["samples"].append({"leg": name, "case": s})
        for v in r.get("violations", []):
            v = dict(v)
            v["leg"] = name
            total["violations"].append(v)
        for k, v in r.get("violation_counts", {}).items():
            total["violation_counts"][k] = total["violation_counts"].get(k, 0) + v
        total["inconclusive"] += r.get("inconclusive", 0)
        for n in r.get("notes", []):
            total["notes"].append("%s: %s" % (name, n))
        total["legs"][name] = {
            "evaluations": r.get("evaluations", 0),
            "distinct_nontrivial": r.get("distinct_nontrivial", 0),
            "wall_s": r.get("wall_s"),
        }
    return total


def load_known_findings():
    path = os.path.join(VERIF, "known_findings.json")
    try:
        with open(path) as f:
            return json.load(f)
    except FileNotFoundError:
        return {"findings": [], "fixed": []}


def finalize(prop, tier, seed, level, rule, report, t0, assumptions,
             floor_eval=1, floor_distinct=2, extra_coverage=None):
    """Print verdict lines, write replay files and the evidence file, and
    return the process exit code."""
    known = load_known_findings()
    known_sigs = {}
    for k in known.get("findings", []):
        if k.get("property") == prop:
            known_sigs[k["signature"]] = k
    replay_dir = os.path.join(VERIF, "replays", prop)
    os.makedirs(replay_dir, exist_ok=True)
    for old in os.listdir(replay_dir):
        # witnesses belong to the run that produced them
        try:
            os.unlink(os.path.join(replay_dir, old))
        except OSError:
            pass
    unknown = 0
    known_seen = {}
    printed = set()
    # Violation counts cover every occurrence; the violations list holds
    # up to two witnesses per signature.
    sig_counts = dict(report.get("violation_counts", {}))
    for v in report["violations"]:
        sig_counts.setdefault(v["signature"], 1)
    witnesses = {}
    for v in report["violations"]:
        witnesses.setdefault(v["signature"], v)
    for sig, count in sorted(sig_counts.items()):
        v = witnesses.get(sig, {"signature": sig, "what": "(witness not retained)", "replay": {}})
        body = {"property": prop, "signature": sig, "what": v.get("what"),
                "leg": v.get("leg"), "seed": seed, "tier": tier,
                "replay": v.get("replay")}
        h = hashlib.sha1(json.dumps(body, sort_keys=True).encode()).hexdigest()[:10]
        safe = "".join(c if c.isalnum() or c in "-_." else "_" for c in sig)[:80]
        path = os.path.join(replay_dir, "%s-%s.json" % (safe, h))
        with open(path, "w") as f:
            json.dump(body, f, indent=1)
        if sig in known_sigs:
            known_seen[sig] = count
            if sig not in printed:
                print("KNOWN-FINDING: property=%s %s [%s] (%d occurrence(s) this run; witness %s)"
                      % (prop, known_sigs[sig].get("what", ""), sig, count, path))
                printed.add(sig)
        else:
            unknown += 1
            print("VIOLATION property=%s replay=%s" % (prop, path))
            print("  signature=%s occurrences=%d: %s" % (sig, count, v.get("what")))
    cov = {
        "evaluations": int(report["evaluations"]),
        "distinct_nontrivial": int(report["distinct_nontrivial"]),
        "rule": rule,
        "samples": report["samples"][:8] or [],
        "observed": report["counters"],
        "legs": report.get("legs", {}),
        "inconclusive": report["inconclusive"],
        "known_findings_seen": known_seen,
        "notes": report["notes"][:40],
    }
    if extra_coverage:
        cov.update(extra_coverage)
    ev = {
        "property_id": prop,
        "tier": tier,
        "seed": int(seed),
        "level": level,
        "coverage": cov,
        "assumptions": assumptions,
        "wall_s": round(time.time() - t0, 2),
        "violations": unknown,
    }
    os.makedirs(os.path.join(VERIF, "evidence"), exist_ok=True)
    with open(os.path.join(VERIF, "evidence", prop + ".json"), "w") as f:
        json.dump(ev, f, indent=1)
    print("%s %s seed=%s: evaluations=%d distinct_nontrivial=%d inconclusive=%d violations=%d known=%d wall=%.1fs"
          % (prop, tier, seed, cov["evaluations"], cov["distinct_nontrivial"],
             cov["inconclusive"], unknown, len(known_seen), ev["wall_s"]))
    if unknown:
        return 1
    if cov["evaluations"] < floor_eval or cov["distinct_nontrivial"] < floor_distinct:
        print("CHECK-BROKEN property=%s observed too little (evaluations=%d, distinct=%d; floors %d/%d)"
              % (prop, cov["evaluations"], cov["distinct_nontrivial"], floor_eval, floor_distinct))
        return 3
    return 0


# ---------------------------------------------------------------------------
# Helpers for the black-box CLI monitors


def rg_env(home):
    env = {
        "PATH": os.environ.get("PATH", "/usr/bin:/bin"),
        "HOME": home,
        "XDG_CONFIG_HOME": os.path.join(home, ".config"),
        "LC_ALL": "C",
        "GIT_CONFIG_NOSYSTEM": "1",
        "GIT_CONFIG_GLOBAL": "/dev/null",
        "TERM": "dumb",
    }
    return env


RG_OVERRIDE = None       # a sanitizer build of rg, set by the sanitizer legs
SAN_DIR = None           # where sanitizer reports seen on rg's stderr are kept


def use_rg(path, san_dir=None):
    global RG_OVERRIDE, SAN_DIR
    RG_OVERRIDE = path
    SAN_DIR = san_dir
    if san_dir:
        os.makedirs(san_dir, exist_ok=True)
        os.chmod(san_dir, 0o777)


def _keep_sanitizer_report(stderr, args):
    if SAN_DIR and (b"Sanitizer" in stderr):
        fd, path = tempfile.mkstemp(prefix="san-", suffix=".txt", dir=SAN_DIR)
        with os.fdopen(fd, "wb") as f:
            f.write(("argv: %r\n" % (args,)).encode() + stderr[:400000])


def run_rg(args, cwd, home, rg=None, stdin=None, timeout=60, uid=None):
    """Run rg with a pinned environment. Returns (status, stdout, stderr) or
    None on watchdog expiry (inconclusive)."""
    kw = {}
    if uid is not None:
        def demote():
            os.setgid(uid)
            os.setuid(uid)
        kw["preexec_fn"] = demote
    try:
        env = rg_env(home)
        if RG_OVERRIDE:
            env["ASAN_OPTIONS"] = "detect_leaks=0:halt_on_error=1:abort_on_error=0:exitcode=97"
            env["TSAN_OPTIONS"] = "halt_on_error=0:exitcode=0"
            timeout = timeout * 10
        p = subprocess.run([rg or RG_OVERRIDE or RG] + list(args), cwd=cwd, env=env,
                           stdin=subprocess.DEVNULL if stdin is None else None,
                           input=stdin, stdout=subprocess.PIPE,
                           stderr=subprocess.PIPE, timeout=timeout, **kw)
    except subprocess.TimeoutExpired:
        return None
    if RG_OVERRIDE:
        _keep_sanitizer_report(p.stderr, args)
        if b"ThreadSanitizer" in p.stderr:
            # keep the monitors' stderr checks meaningful: strip the report
            i = p.stderr.find(b"==================")
            return p.returncode, p.stdout, p.stderr[:i] if i >= 0 else p.stderr
    return p.returncode, p.stdout, p.stderr


def esc(b):
    out = []
    for c in b:
        if c == 0x5c:
            out.append("\\\\")
        elif c == 0x0a:
            out.append("\\n")
        elif c == 0x0d:
            out.append("\\r")
        elif c == 0x09:
            out.append("\\t")
        elif 0x20 <= c <= 0x7e:
            out.append(chr(c))
        else:
            out.append("\\x%02x" % c)
    return "".join(out)


def unesc(s):
    out = bytearray()
    b = s.encode("latin-1") if isinstance(s, str) else s
    i = 0
    while i < len(b):
        if b[i] == 0x5c and i + 1 < len(b):
            c = b[i + 1]
            if c == 0x5c:
                out.append(0x5c); i += 2
            elif c == ord("n"):
                out.append(10); i += 2
            elif c == ord("r"):
                out.append(13); i += 2
            elif c == ord("t"):
                out.append(9); i += 2
            elif c == ord("x") and i + 4 <= len(b):
                out.append(int(b[i + 2:i + 4], 16)); i += 4
            else:
                out.append(b[i]); i += 1
        else:
            out.append(b[i]); i += 1
    return bytes(out)


class Rng:
    """SplitMix64-seeded xorshift; deterministic across Python versions."""

    def __init__(self, seed):
        self.s = (seed * 0x9E3779B97F4A7C15 + 0x1234567) & 0xFFFFFFFFFFFFFFFF
        if self.s == 0:
            self.s = 1

    def next(self):
        x = self.s
        x ^= (x << 13) & 0xFFFFFFFFFFFFFFFF
        x ^= x >> 7
        x ^= (x << 17) & 0xFFFFFFFFFFFFFFFF
        self.s = x
        return (x * 0x2545F4914F6CDD1D) & 0xFFFFFFFFFFFFFFFF

    def below(self, n):
        return self.next() % n

    def range(self, lo, hi):
        return lo + self.below(hi - lo + 1)

    def chance(self, num, den):
        return self.below(den) < num

    def pick(self, xs):
        return xs[self.below(len(xs))]

    def weighted(self, weights):
        r = self.below(sum(weights))
        for i, w in enumerate(weights):
            if r < w:
                return i
            r -= w
        return len(weights) - 1

    def shuffle(self, xs):
        for i in range(len(xs) - 1, 0, -1):
            j = self.below(i + 1)
            xs[i], xs[j] = xs[j], xs[i]

    def sample(self, xs, k):
        xs = list(xs)
        self.shuffle(xs)
        return xs[:k]


def mix(*parts):
    h = hashlib.sha256(repr(parts).encode()).digest()
    return int.from_bytes(h[:8], "little")


def par_map(fn, items, jobs=None):
    """Run fn over items in a process pool (fork); results in order."""
    import multiprocessing as mp
    jobs = jobs or NCPU
    # created here so that the forked workers share it: a worker leaves through
    # os._exit, which would skip the removal of a scratch root of its own
    scratch_root()
    if jobs <= 1 or len(items) <= 1:
        return [fn(x) for x in items]
    ctx = mp.get_context("fork")
    with ctx.Pool(jobs) as pool:
        return pool.map(fn, items, chunksize=1)


# ---------------------------------------------------------------------------
# Batched CLI legs over cases produced by `rgmon clicases <kind>`


class CaseEnv:
    """What a per-case handler gets: a report to fill, a scratch directory,
    a pinned HOME, and helpers."""

    def __init__(self, rep, tmp, home):
        self.rep = rep
        self.tmp = tmp
        self.home = home
        self.seen = set()

    def count(self, key, n=1):
        c = self.rep["counters"]
        c[key] = c.get(key, 0) + n

    def nontrivial(self, key):
        self.seen.add(hash(key))

    def sample(self, obj, limit=2):
        if len(self.rep["samples"]) < limit:
            self.rep["samples"].append(obj)

    def viol(self, sig, what, replay):
        vc = self.rep["violation_counts"]
        vc[sig] = vc.get(sig, 0) + 1
        if vc[sig] <= 2:
            self.rep["violations"].append({"signature": sig, "what": what, "replay": replay})

    def inconclusive(self, note=None):
        self.rep["inconclusive"] += 1
        if note and len(self.rep["notes"]) < 10:
            self.rep["notes"].append(note)

    def write(self, name, data):
        path = os.path.join(self.tmp, name)
        with open(path, "wb") as f:
            f.write(data)
        return path


def _cli_case_batch(job):
    kind, seed, n, handler_mod, handler_name, extra = job
    import importlib
    handler = getattr(importlib.import_module(handler_mod), handler_name)
    rep = empty_report()
    if kind is not None:
        try:
            out = subprocess.run([RGMON, "clicases", kind, "--seed", str(seed), "--n", str(n)],
                                 stdout=subprocess.PIPE, check=True, timeout=900).stdout
            cases = json.loads(out)
        except Exception as e:
            rep["inconclusive"] += 1
            rep["notes"].append("clicases %s failed: %r" % (kind, e))
            return rep
    else:
        cases = [{"seed": mix(seed, i), "index": i} for i in range(n)]
    tmp = tempfile.mkdtemp(prefix="cli-", dir=scratch_root())
    home = os.path.join(tmp, "home")
    os.makedirs(home)
    env = CaseEnv(rep, tmp, home)
    env.extra = extra
    for ci, case in enumerate(cases):
        sub = os.path.join(tmp, "c%d" % ci)
        os.makedirs(sub)
        env.tmp = sub
        try:
            handler(case, env)
        except Exception:
            # a bug in the monitor itself: never a verdict; the traceback is
            # carried to the driver, which reports the check as broken
            import traceback
            raise Broken("handler %s.%s failed on case %r:\n%s" % (handler_mod, handler_name, case if len(repr(case)) < 200 else ci,
                                                                  traceback.format_exc()))
        finally:
            # restore permissions so that the tree can be removed
            for root, dirs, files in os.walk(sub):
                for d in dirs:
                    try:
                        os.chmod(os.path.join(root, d), 0o755)
                    except OSError:
                        pass
            shutil.rmtree(sub, ignore_errors=True)
    rep["distinct_nontrivial"] = len(env.seen)
    shutil.rmtree(tmp, ignore_errors=True)
    return rep


def sum_reports(reps, max_samples=3):
    out = empty_report()
    for r in reps:
        out["evaluations"] += r["evaluations"]
        out["distinct_nontrivial"] += r["distinct_nontrivial"]
        for k, v in r["counters"].items():
            if k.startswith("max_"):
                out["counters"][k] = max(out["counters"].get(k, 0), v)
            else:
                out["counters"][k] = out["counters"].get(k, 0) + v
        for s in r["samples"]:
            if len(out["samples"]) < max_samples:
                out["samples"].append(s)
        out["violations"] += r["violations"]
        for k, v in r["violation_counts"].items():
            out["violation_counts"][k] = out["violation_counts"].get(k, 0) + v
        out["inconclusive"] += r["inconclusive"]
        for n in r["notes"]:
            if n not in out["notes"] and len(out["notes"]) < 20:
                out["notes"].append(n)
    return out


def run_cli_cases(kind, handler, seed, tag, total, per, extra=None, jobs=None):
    """kind: rgmon clicases kind, or None for handler-generated cases (the
    handler then receives {"seed": ..., "index": ...})."""
    nb = max(1, (total + per - 1) // per)
    batch = [(kind, mix(seed, tag, i) & 0x7FFFFFFF, per, handler.__module__, handler.__name__, extra)
             for i in range(nb)]
    return sum_reports(par_map(_cli_case_batch, batch, jobs))
