"""C15 — exit status and error reporting contract (fault enumeration).

rg runs as uid/gid 65534 (the sandbox user is root, to whom mode-000 faults
are invisible). Planted faults: unreadable files and directories, dangling
symlinks (implicit / explicit / with -L), a non-existent explicit path, a
symlink to /proc/self/mem (opens, fails on read), invalid regex / glob /
encoding / type arguments, and the consumer closing stdout after k bytes."""

import json
import os
import select
import signal
import subprocess
import time

import common
from common import esc

RULE = ("cases = generated trees (6-40 files, some matching) with 0-4 faults planted from: mode-000 file, mode-000 "
        "directory, dangling symlink, symlink to /proc/self/mem (with -L), explicit non-existent path, explicit "
        "dangling symlink; searched in the modes default, -c, -l, --files, --json, -q, with -j1 and -j4; plus "
        "invalid-argument runs (regex, glob, --encoding, -t) and broken-pipe runs where the reader closes stdout "
        "after k bytes (quick: 12 values of k spread over the output length incl. 0 and len-1; thorough: every k up "
        "to 400 and 60 sampled beyond). Oracles: status = 0 iff a match (or listed file) is expected and (no error "
        "expected or -q), 2 if an error is expected (and not -q with a match), else 1; each expected fault has a "
        "diagnostic naming its path on stderr, no fault => empty stderr; stdout = stdout of the same run on the tree "
        "with the faulty entries removed; invalid arguments => status 2 and empty stdout; broken pipe => status 0, "
        "empty stderr, exit within the watchdog. Non-trivial = a run with at least one fault and one matching "
        "file; distinct by (tree seed, faults, mode, threads).")

ASSUME = [
    "files vanishing between directory listing and open cannot be timed from outside without rr/ptrace; approximated by the open-succeeds-read-fails (/proc/self/mem) and dangling-link faults and listed as not covered",
    "with -q the search may stop at the first match, so stderr is not constrained there",
    "a watchdog expiry is inconclusive unless /proc shows rg blocked writing to a pipe nobody reads",
]

UID = 65534
WORD = "needle"


def open_up(path, stop):
    """make every directory from `path` up to `stop` traversable by others"""
    p = path
    while True:
        try:
            os.chmod(p, 0o755)
        except OSError:
            pass
        if os.path.realpath(p) == os.path.realpath(stop) or p == "/":
            break
        p = os.path.dirname(p)


def build_tree(rng, root, with_faults):
    """returns (faults: list of dict(kind, path, needs_L, explicit), nmatching_clean)"""
    os.makedirs(root)
    faults = []
    n = rng.range(6, 40)
    for i in range(n):
        d = os.path.join(root, "d%d" % (i % 4)) if i % 3 else root
        os.makedirs(d, exist_ok=True)
        body = ("%s line %d\n" % (WORD if rng.chance(1, 2) else "nothing", i)) * rng.range(1, 5)
        with open(os.path.join(d, "f%02d.txt" % i), "w") as f:
            f.write(body)
    if not with_faults:
        return faults
    kinds = rng.sample(["file000", "dir000", "dangling", "procmem", "missing", "explicit-dangling"], rng.range(1, 4))
    for k in kinds:
        if k == "file000":
            p = os.path.join(root, "zz_unreadable.txt")
            with open(p, "w") as f:
                f.write(WORD + " hidden from us\n")
            os.chmod(p, 0)
            faults.append({"kind": k, "path": "zz_unreadable.txt", "needs_L": False, "explicit": False})
        elif k == "dir000":
            p = os.path.join(root, "zz_lockeddir")
            os.makedirs(p)
            with open(os.path.join(p, "inside.txt"), "w") as f:
                f.write(WORD + " inside\n")
            os.chmod(p, 0)
            faults.append({"kind": k, "path": "zz_lockeddir", "needs_L": False, "explicit": False})
        elif k == "dangling":
            os.symlink("nowhere-at-all", os.path.join(root, "zz_dangling"))
            faults.append({"kind": k, "path": "zz_dangling", "needs_L": True, "explicit": False})
        elif k == "procmem":
            os.symlink("/proc/self/mem", os.path.join(root, "zz_mem"))
            faults.append({"kind": k, "path": "zz_mem", "needs_L": True, "explicit": False})
        elif k == "missing":
            faults.append({"kind": k, "path": "zz_does_not_exist", "needs_L": False, "explicit": True})
        elif k == "explicit-dangling":
            os.symlink("nowhere-at-all", os.path.join(root, "zz_xdangling"))
            faults.append({"kind": k, "path": "zz_xdangling", "needs_L": False, "explicit": True, "also_implicit_L": True})
    return faults


def strip_faults(root):
    for name in ("zz_unreadable.txt", "zz_dangling", "zz_mem", "zz_xdangling"):
        try:
            os.unlink(os.path.join(root, name))
        except OSError:
            pass
    p = os.path.join(root, "zz_lockeddir")
    if os.path.isdir(p):
        os.chmod(p, 0o755)
        os.unlink(os.path.join(p, "inside.txt"))
        os.rmdir(p)


MODES = [("default", ["-n", "--no-heading", "-H"]), ("count", ["-c", "-H"]), ("files-with-matches", ["-l"]),
         ("files", ["--files"]), ("json", ["--json"]), ("quiet", ["-q"]),
         # --quiet keeps its meaning for the exit status when combined with
         # modes that make rg search everything anyway
         ("quiet-stats", ["-q", "--stats"]), ("quiet-json", ["-q", "--json"]), ("quiet-count", ["-q", "-c"])]


def normalize(mode, out):
    if mode == "json":
        keep = []
        for ln in out.split(b"\n"):
            if not ln:
                continue
            m = json.loads(ln)
            if m["type"] in ("match",):
                keep.append(json.dumps(m, sort_keys=True).encode())
        return sorted(keep)
    return sorted(x for x in out.split(b"\n") if x)


def fault_case(case, env):
    rep = env.rep
    rng = common.Rng(case["seed"])
    open_up(env.tmp, common.scratch_root())
    open_up(env.home, common.scratch_root())
    root = os.path.join(env.tmp, "t")
    faults = build_tree(rng, root, True)
    tier = env.extra["tier"]
    modes = MODES if tier == "thorough" else rng.sample(MODES, 3)
    results = []
    for mname, margs in modes:
        for threads in (["-j1", "-j4"] if tier == "thorough" else [rng.pick(["-j1", "-j4"])]):
            follow = rng.chance(1, 2)
            active = [f for f in faults if (not f["needs_L"] or follow) or (f.get("also_implicit_L") and follow)]
            if mname == "files":
                # --files lists without opening: an unreadable file (or, with
                # -L, the /proc/self/mem link) is just another listed file
                active = [f for f in active if f["kind"] not in ("file000", "procmem")]
            explicit = [f["path"] for f in faults if f["explicit"]]
            # (one file system only: the option changes nothing here, but the
            # roots are then examined one by one before the walk starts)
            osf = ["--one-file-system"] if (not follow and rng.chance(1, 3)) else []
            argv = ["--no-config", "--color", "never", threads] + (["-L"] if follow else []) + osf + margs
            if mname != "files":
                argv += ["-e", WORD]
            # the faulty explicit paths before or after the healthy root
            argv += (explicit + ["."]) if rng.chance(1, 2) else (["."] + explicit)
            rep["evaluations"] += 1
            r = common.run_rg(argv, root, env.home, uid=UID, timeout=120)
            if r is None:
                env.inconclusive("watchdog (fault run)")
                continue
            env.count("rg_runs")
            results.append((mname, threads, follow, active, argv, r))
    # the same runs on the tree with the faulty entries removed
    strip_faults(root)
    for mname, threads, follow, active, argv, r in results:
        clean_argv = [a for a in argv if not a.startswith("zz_")]
        c = common.run_rg(clean_argv, root, env.home, uid=UID, timeout=120)
        if c is None:
            env.inconclusive("watchdog (clean run)")
            continue
        env.count("rg_runs")
        status, so, se = r
        matched = c[0] == 0
        errored = len(active) > 0
        quiet = mname.startswith("quiet")
        want = 0 if matched and (quiet or not errored) else (2 if errored else 1)
        for f in active:
            env.count("fault_" + f["kind"])
        rp = {"kind": "cli", "seed": case["seed"], "argv": argv, "faults": active, "status": status,
              "stdout": esc(so[:1500]), "stderr": esc(se[:1500]), "clean_status": c[0]}
        sigf = "+".join(sorted(set(f["kind"] for f in active))) or "none"
        if status != want:
            env.viol("C15:%s:status:%s" % (mname, sigf),
                     "rg %s exits %d, expected %d (match expected: %s, faults: %s)" % (" ".join(argv[3:]), status, want, matched, sigf), rp)
        if not quiet:
            for f in active:
                if f["path"].encode() not in se:
                    env.viol("C15:%s:missing-diagnostic:%s" % (mname, f["kind"]),
                             "no diagnostic naming %s on stderr" % f["path"], rp)
            if not active and se:
                env.viol("C15:%s:unexpected-diagnostic" % mname, "stderr not empty without a fault: %s" % esc(se[:200]), rp)
            got_norm = normalize(mname, so)
            if mname == "files":
                got_norm = [x for x in got_norm if not x.endswith((b"zz_unreadable.txt", b"zz_mem"))]
            if got_norm != normalize(mname, c[1]):
                env.viol("C15:%s:results-of-other-files-changed:%s" % (mname, sigf),
                         "stdout differs from the run without the faulty entries", dict(rp, clean_stdout=esc(c[1][:1500])))
        if active and matched:
            env.nontrivial((case["seed"], sigf, mname, threads, follow))
    env.sample({"faults": [f["kind"] for f in faults], "modes": [m[0] for m in modes]})


BAD_ARGS = [
    (["-e", "(unclosed"], "regex"), (["-e", "a{2,1}"], "regex"), (["-e", "\\p{NoSuchClass}"], "regex"),
    (["-g", "{a", "-e", WORD], "glob"), (["-g", "[z-a]", "-e", WORD], "glob"),
    (["--encoding", "no-such-encoding", "-e", WORD], "encoding"),
    (["-t", "nosuchtype", "-e", WORD], "type"), (["-T", "nosuchtype", "-e", WORD], "type"),
    (["--type-add", "broken", "-e", WORD], "type-add"), (["-e", "a\\nb"], "regex-newline"),
    (["--max-count", "notanumber", "-e", WORD], "number"), (["--no-such-flag", "-e", WORD], "flag"),
    # the invalid pattern is one of several, in any position, with the others valid
    (["-e", WORD, "-e", "(unclosed"], "regex-among-several"), (["-e", "(unclosed", "-e", WORD], "regex-among-several"),
    (["-e", "foo\\nbar", "-e", WORD], "newline-among-several"), (["-e", WORD, "-e", "foo\\nbar"], "newline-among-several"),
    # ... also as the raw terminator byte in plain / fixed-string patterns
    (["-e", "foo" + chr(10) + "bar", "-e", "alpha", "-e", WORD], "raw-newline-among-several"),
    (["-F", "-e", "foo" + chr(10) + "bar", "-e", WORD], "raw-newline-among-several"),
    (["-e", WORD, "-e", "foo" + chr(10) + "bar", "-e", "zeta"], "raw-newline-among-several"),
    (["--crlf", "-e", "foo" + chr(13) + "bar", "-e", WORD], "raw-cr-among-several"),
    (["--crlf", "-F", "-e", "a" + chr(13) + "b", "-e", WORD], "raw-cr-among-several"),
    (["--null-data", "-e", "a\\x00b", "-e", WORD], "nul-among-several"),
]
# command lines that are invalid because of what they do with standard input
# (given WORD on stdin): patterns read from it twice, or patterns read from it
# while it is also searched.  (args, kind, paths)
BAD_STDIN_ARGS = [
    (["-f", "-", "-f", "-"], "stdin-patterns-twice", ["."]),
    (["-f", "-", "-e", "zeta", "--file=-"], "stdin-patterns-twice", ["."]),
    (["-e", WORD, "-f", "-", "--file", "-"], "stdin-patterns-twice", ["."]),
    (["-f", "-"], "stdin-patterns-and-searched", ["-"]),
    (["-f", "-"], "stdin-patterns-and-searched", [".", "-"]),
]


def badarg_case(case, env):
    rep = env.rep
    rng = common.Rng(case["seed"])
    open_up(env.tmp, common.scratch_root())
    open_up(env.home, common.scratch_root())
    root = os.path.join(env.tmp, "t")
    build_tree(rng, root, False)
    for args, kind in BAD_ARGS:
        for extra in ([], ["-c"], ["-l"], ["--json"], ["-q"], ["-j4"]):
            rep["evaluations"] += 1
            r = common.run_rg(["--no-config"] + extra + args + ["."], root, env.home, uid=UID)
            if r is None:
                env.inconclusive("watchdog")
                continue
            env.count("rg_runs")
            env.nontrivial((kind, tuple(args), tuple(extra)))
            if r[0] != 2 or r[1] != b"" or not r[2]:
                env.viol("C15:invalid-%s" % kind,
                         "rg %s: status %d, %d bytes on stdout, stderr %s" % (" ".join(extra + args), r[0], len(r[1]), esc(r[2][:100])),
                         {"kind": "cli", "argv": extra + args, "status": r[0], "stdout": esc(r[1][:300]), "stderr": esc(r[2][:300])})
    for args, kind, paths in BAD_STDIN_ARGS:
        for extra in ([], ["-c"], ["-l"], ["--json"], ["-q"], ["-j4"], ["-j1", "--sort", "path"]):
            rep["evaluations"] += 1
            r = common.run_rg(["--no-config"] + extra + args + paths, root, env.home, uid=UID, stdin=(WORD + "\n").encode())
            if r is None:
                env.inconclusive("watchdog")
                continue
            env.count("rg_runs")
            env.nontrivial((kind, tuple(args), tuple(extra), tuple(paths)))
            if r[0] != 2 or r[1] != b"" or not r[2]:
                env.viol("C15:invalid-%s" % kind,
                         "printf '%s\\n' | rg %s: status %d, %d bytes on stdout, stderr %s"
                         % (WORD, " ".join(extra + args + paths), r[0], len(r[1]), esc(r[2][:100])),
                         {"kind": "cli", "argv": extra + args + paths, "stdin": WORD, "status": r[0],
                          "stdout": esc(r[1][:300]), "stderr": esc(r[2][:300])})


def pipe_run(argv, cwd, home, k):
    """close the read end after k bytes; returns (status, stderr, state) or None"""
    def demote():
        os.setgid(UID)
        os.setuid(UID)
    p = subprocess.Popen([common.RG] + argv, cwd=cwd, env=common.rg_env(home), stdin=subprocess.DEVNULL,
                         stdout=subprocess.PIPE, stderr=subprocess.PIPE, preexec_fn=demote)
    got = 0
    try:
        while got < k:
            chunk = p.stdout.read(min(4096, k - got))
            if not chunk:
                break
            got += len(chunk)
    finally:
        p.stdout.close()
    t0 = time.time()
    while p.poll() is None and time.time() - t0 < 60:
        time.sleep(0.005)
    if p.poll() is None:
        state = ""
        try:
            state = open("/proc/%d/wchan" % p.pid).read()
        except OSError:
            pass
        p.kill()
        p.wait()
        return None, b"", state
    se = p.stderr.read()
    p.stderr.close()
    return p.returncode, se, ""


def pipe_case(case, env):
    rep = env.rep
    rng = common.Rng(case["seed"])
    open_up(env.tmp, common.scratch_root())
    open_up(env.home, common.scratch_root())
    root = os.path.join(env.tmp, "t")
    os.makedirs(root)
    for i in range(rng.range(20, 60)):
        with open(os.path.join(root, "f%02d.txt" % i), "w") as f:
            f.write(("%s %d and some more text to make the line longer\n" % (WORD, i)) * rng.range(5, 400))
    tier = env.extra["tier"]
    for mname, margs in [("default", ["-n"]), ("count", ["-c"]), ("files-with-matches", ["-l"]), ("files", ["--files"]), ("json", ["--json"])]:
        for threads in ("-j1", "-j4"):
            argv = ["--no-config", "--color", "never", threads] + margs + ([] if mname == "files" else ["-e", WORD]) + ["."]
            full = common.run_rg(argv, root, env.home, uid=UID, timeout=120)
            if full is None:
                env.inconclusive("watchdog")
                continue
            total = len(full[1])
            if tier == "thorough":
                ks = list(range(0, min(total, 400))) + [rng.below(max(total, 1)) for _ in range(60)]
            else:
                ks = sorted(set([0, 1, max(total - 1, 0), total // 2] + [rng.below(max(total, 1)) for _ in range(8)]))
            for k in ks:
                rep["evaluations"] += 1
                status, se, state = pipe_run(argv, root, env.home, k)
                env.count("pipe_closures")
                env.nontrivial((case["seed"], mname, threads, k))
                rp = {"kind": "cli", "seed": case["seed"], "argv": argv, "close_after": k, "output_length": total}
                if status is None:
                    if "pipe" in state:
                        env.viol("C15:%s:broken-pipe:hang" % mname, "rg still blocked in %s 60 s after the reader closed at byte %d" % (state, k), rp)
                    else:
                        env.inconclusive("watchdog after pipe close (wchan %r)" % state)
                    continue
                if status != 0 and k < total:
                    env.viol("C15:%s:broken-pipe:status" % mname, "reader closed after %d of %d bytes: status %d" % (k, total, status), dict(rp, stderr=esc(se[:300])))
                if se:
                    env.viol("C15:%s:broken-pipe:diagnostic" % mname, "reader closed after %d bytes: stderr %s" % (k, esc(se[:200])), rp)
    env.sample({"broken_pipe": "reader closes stdout after k bytes", "modes": 5, "threads": ["-j1", "-j4"]})


def check(tier, seed, t0):
    common.build_rg()
    os.chmod(common.scratch_root(), 0o755)
    nf = 150 if tier == "quick" else 4000
    nb = 2 if tier == "quick" else 16
    np_ = 8 if tier == "quick" else 64
    ex = {"tier": tier}
    parts = [("faults", common.run_cli_cases(None, fault_case, seed, "c15f", nf, 10 if tier == "quick" else 125, extra=ex)),
             ("invalid-arguments", common.run_cli_cases(None, badarg_case, seed, "c15b", nb, 1, extra=ex)),
             ("broken-pipe", common.run_cli_cases(None, pipe_case, seed, "c15p", np_, 1 if tier == "quick" else 2, extra=ex))]
    rep = common.merge_reports(parts)
    cov = {"fault_points_enumerated": rep["counters"].get("broken-pipe.pipe_closures", 0)
           + sum(v for k, v in rep["counters"].items() if k.startswith("faults.fault_")),
           "not_covered": ["files removed or truncated between directory listing and open"]}
    return common.finalize("C15", tier, seed, "fault_enumeration", RULE, rep, t0, ASSUME, floor_eval=300, floor_distinct=100,
                           extra_coverage=cov)


def replay(path):
    with open(path) as f:
        body = json.load(f)
    print(json.dumps(body.get("replay", body), indent=1)[:6000])
    return 0
