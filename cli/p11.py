"""C11 — line-mode matcher promises hold for every accepted pattern over all
lines. Decided in-process (rgmon c11); see DESIGN.md for why this is claimed
as 'no witness among language-directed and exhaustive small-alphabet lines'
and not as a decision over all lines."""

import rustonly

RULE = ("patterns = half from a systematic enumeration of the generator's grammar at small sizes (atom atom, "
        "atom|atom, (atom)rep, look atom atom, atom(atom|atom)rep, atom atom look over 28 literals, 27 classes, "
        "14 repetitions, 10 look-arounds), half random larger ASTs, inner-literal shapes, limit shapes and the "
        "repository's own test patterns, under random combinations of -i/-S/-s, -w, -x, -F, --crlf, --null-data, "
        "--no-unicode, 1-2 patterns; one case in ten is a pattern that can only match together with the terminator "
        "and must be rejected. Per accepted pattern the lines are: HIR-guided derivations of the user's pattern "
        "and of the final compiled pattern (every alternation branch, repetition counts min/min+1/max/3, class "
        "range ends), mutations, noise, and ALL strings up to length 4 (thorough: 5) over the pattern's literal "
        "bytes plus one foreign byte. Monitored: (1) no match in terminator-joined / terminator-spliced haystacks "
        "contains the terminator, (2) is_match on every terminator-free line equals the reference engine's verdict "
        "for the user's pattern, (3) no byte of non_matching_bytes() lies inside a match, also after planting such "
        "bytes into matches, (4) an emulation of the searcher's candidate loop over buffers of matching and "
        "non-matching lines stops on every matching line. Non-trivial = accepted pattern with at least one "
        "matching and one non-matching line; distinct by (patterns, flags).")

ASSUME = [
    "claimed as: no witness among language-directed samples and exhaustive small-alphabet lines; the per-pattern decision over ALL lines (automata product) named in the property's quantifier belongs to another technique family and is not substituted for",
    "regex-automata defines whether the user's pattern matches a line",
    "over-rejection by the builder is not a violation",
]


def check(tier, seed, t0):
    return rustonly.check("C11", tier, seed, t0, "exploration", RULE, ASSUME, 1000, 500)


def replay(path):
    return rustonly.replay("C11", path)
