"""C09 — printed lines and their coordinates are the input's own; JSON output
is lossless.

Every record rg prints (standard printer with -n -b --column, --vimgrep,
--heading, --null, context; JSON printer incl. --passthru and -U) is parsed
back into (line number, column, offset, text) and looked up in the file with
an independent line splitter; the first-match column comes from the reference
regex engine (rgmon)."""

import base64
import json
import os
import re
import subprocess

import common
from common import esc, unesc

RULE = ("cases = C01-style (patterns, flags, input) with LF or CRLF terminators (invalid UTF-8, very long lines, "
        "no final newline, empty-matching patterns included) plus C13-style multi-line cases; each is printed in "
        "the modes: -n -b --column --no-heading, the same with -C1/-A2/-B1, --vimgrep -b, --heading -n, --null "
        "-H -n, --json, --json -C1, --json --passthru, -U --json; every record is parsed back and checked: text = "
        "the file's line bytes at the printed number, offset = the line's start (match start for --vimgrep), "
        "column = 1 + start of the leftmost match per the reference engine, JSON: lines/submatch texts are the "
        "file's bytes at absolute_offset+start..end, text iff valid UTF-8 else base64, --passthru lines "
        "concatenate to the file, message grammar begin (match|context)* end. Non-trivial = at least one match "
        "record printed; distinct by (patterns, flags, input, mode).")

ASSUME = [
    "replacement, --trim, -M, -o are out of scope by the statement",
    "submatches are checked for being true slices of the line in increasing order, and the first one against the reference engine; their number is C10's subject",
    "columns are not checked under -v (an inverted 'match' has no leftmost match)",
]


def split_lines(data):
    out = []
    pos = 0
    n = 0
    while pos < len(data):
        i = data.find(b"\n", pos)
        end = len(data) if i < 0 else i + 1
        n += 1
        out.append((n, pos, end))
        pos = end
    return out


def lookup(lines_by_n, data, n):
    if n not in lines_by_n:
        return None
    _, s, e = lines_by_n[n]
    return s, data[s:e]


def text_of(obj):
    """JSON data object -> (bytes, used_text_key)"""
    if "text" in obj:
        return obj["text"].encode("utf-8"), True
    return base64.b64decode(obj["bytes"]), False


def is_utf8(b):
    try:
        b.decode("utf-8")
        return True
    except UnicodeDecodeError:
        return False


def check_text_modes(case, env, data, path, nl):
    rep = env.rep
    lines = split_lines(data)
    by_n = {n: (n, s, e) for n, s, e in lines}
    ref = {l["n"]: l for l in case["lines"]}
    fargs = ["-a", "--no-config", "--color", "never"] + case["args"]
    pats = []
    for p in case["patterns"]:
        pats += ["-e", p]
    modes = [
        ("column", ["-n", "-b", "--column", "--no-heading"], False),
        ("column-context", ["-n", "-b", "--column", "--no-heading", env.rng.pick(["-C1", "-A2", "-B1"])], False),
        ("vimgrep", ["--vimgrep", "-b"], False),
        ("heading", ["--heading", "-n", "-H", "-b"], False),
        ("null", ["--null", "-H", "-n", "-b", "--no-heading"], False),
        ("inverted", ["-n", "-b", "--no-heading", "-v"], True),
    ]
    for mname, margs, inverted in modes:
        rep["evaluations"] += 1
        r = common.run_rg(fargs + margs + pats + [path], env.tmp, env.home)
        if r is None:
            env.inconclusive("watchdog")
            continue
        env.count("rg_runs")
        status, so, se = r
        if status == 2:
            env.viol("C09:%s:error" % mname, esc(se[:200]), {"kind": "cli", "argv": fargs + margs + pats, "input": case["input"]})
            continue
        # strip per-record path prefixes
        body = so
        recs = body.split(b"\n")
        if recs and recs[-1] == b"":
            recs.pop()
        nrec = 0
        bname = path.encode()
        for rec in recs:
            if rec in (b"--", b"--\r") or rec == b"":
                continue
            if mname == "heading" and rec in (bname, bname + b"\r"):
                continue
            if mname == "null":
                if not rec.startswith(bname + b"\0"):
                    _bad(env, mname, "record without NUL-delimited path", case, margs, rec)
                    break
                rec = rec[len(bname) + 1:]
            if mname == "vimgrep":
                if not rec.startswith(bname + b":"):
                    _bad(env, mname, "record without path", case, margs, rec)
                    break
                rec = rec[len(bname) + 1:]
            m = re.match(rb"^(\d+)([:-])", rec)
            if not m:
                _bad(env, mname, "unparsable record", case, margs, rec)
                break
            n = int(m.group(1))
            sep = m.group(2)
            rest = rec[m.end():]
            col = None
            is_match = sep == b":"
            if is_match and mname in ("column", "column-context", "vimgrep"):
                m2 = re.match(rb"^(\d+):", rest)
                if not m2:
                    _bad(env, mname, "match record without a column", case, margs, rec)
                    continue
                col = int(m2.group(1))
                rest = rest[m2.end():]
            m3 = re.match(rb"^(\d+)" + re.escape(sep), rest)
            if not m3:
                _bad(env, mname, "record without byte offset", case, margs, rec)
                continue
            off = int(m3.group(1))
            text = rest[m3.end():]
            nrec += 1
            found = lookup(by_n, data, n)
            if found is None:
                _bad(env, mname, "line number %d does not exist" % n, case, margs, rec)
                continue
            lstart, lbytes = found
            want_text = lbytes[:-1] if lbytes.endswith(b"\n") else lbytes
            if nl == b"\r\n" and not lbytes.endswith(b"\n"):
                # rg terminates an unterminated last line with CRLF under --crlf
                want_text = want_text + b"\r"
            if text != want_text:
                _bad(env, mname, "printed text is not line %d of the file" % n, case, margs, rec)
                continue
            refl = ref.get(n)
            spans = refl["spans"] if refl else []
            if refl and refl.get("quirk"):
                # text, line number and offset are judged; the column is not
                # (known finding C01:unicode-word-boundary-next-to-invalid-utf8)
                env.count("lines_whose_column_is_not_judged_word_boundary_quirk")
            if mname == "vimgrep":
                # one record per match: offset = match start, column = match start + 1
                if col is None or off != lstart + col - 1:
                    _bad(env, mname, "offset %d is not line start %d + column %d - 1" % (off, lstart, col or 0), case, margs, rec)
                elif spans and not any(s[0] + 1 == col for s in spans) and not (refl and refl.get("quirk")):
                    _bad(env, mname, "column %d is not the start of a match (reference spans %s)" % (col, spans[:5]), case, margs, rec)
                continue
            if off != lstart:
                _bad(env, mname, "offset %d, line %d starts at %d" % (off, n, lstart), case, margs, rec)
                continue
            if col is not None and not (refl and refl.get("quirk")):
                if not spans:
                    _bad(env, mname, "column printed for a line without a match", case, margs, rec)
                elif col != spans[0][0] + 1:
                    sig = "column-is-not-leftmost-match"
                    # known shape: empty match at the very end of an unterminated last line
                    _bad(env, mname, "column %d, leftmost match starts at %d" % (col, spans[0][0] + 1), case, margs, rec, sig)
            if is_match and col is None and mname in ("column", "column-context"):
                _bad(env, mname, "match record without column", case, margs, rec)
        if nrec:
            env.nontrivial((tuple(case["patterns"]), tuple(case["args"]), case["input"], mname))
        env.count("records_checked", nrec)


def _bad(env, mname, what, case, margs, rec, detail=None):
    env.viol("C09:%s:%s" % (mname, detail or re.sub(r"\d+", "N", what)[:60].replace(" ", "-")),
             "%s: %s (record %s)" % (mname, what, esc(rec[:120])),
             {"kind": "cli", "mode": mname, "args": case["args"] + margs, "patterns": case["patterns"],
              "input": case["input"], "record": esc(rec[:400])})


def check_json(case, env, data, path, extra, mname, multiline=False):
    rep = env.rep
    rep["evaluations"] += 1
    fargs = ["-a", "--no-config", "--json"] + case["args"] + extra
    pats = []
    for p in (case["patterns"] if "patterns" in case else [case["pattern"]]):
        pats += ["-e", p]
    r = common.run_rg(fargs + pats + [path], env.tmp, env.home)
    if r is None:
        env.inconclusive("watchdog")
        return
    env.count("rg_runs")
    lines = split_lines(data)
    by_n = {n: (n, s, e) for n, s, e in lines}
    state = "start"
    concat = bytearray()
    nmsg = 0
    rp = {"kind": "cli", "mode": mname, "argv": fargs + pats, "input": case["input"]}
    for ln in r[1].split(b"\n"):
        if not ln:
            continue
        try:
            m = json.loads(ln)
        except Exception:
            env.viol("C09:%s:unparsable-json" % mname, esc(ln[:100]), rp)
            return
        t, d = m["type"], m["data"]
        if t == "begin":
            if state != "start":
                env.viol("C09:%s:message-order" % mname, "begin in state %s" % state, rp)
            state = "open"
            continue
        if t == "end":
            if state != "open":
                env.viol("C09:%s:message-order" % mname, "end in state %s" % state, rp)
            state = "closed"
            continue
        if t == "summary":
            if state not in ("closed", "start"):
                env.viol("C09:%s:message-order" % mname, "summary in state %s" % state, rp)
            state = "done"
            continue
        if state != "open":
            env.viol("C09:%s:message-order" % mname, "%s outside begin/end" % t, rp)
            continue
        nmsg += 1
        lb, used_text = text_of(d["lines"])
        if used_text != is_utf8(lb):
            env.viol("C09:%s:text-vs-base64" % mname,
                     "lines encoded as %s although %svalid UTF-8" % ("text" if used_text else "bytes", "" if is_utf8(lb) else "in"), rp)
        n = d["line_number"]
        off = d["absolute_offset"]
        if n not in by_n:
            env.viol("C09:%s:line-number" % mname, "line_number %r does not exist" % n, rp)
            continue
        if off != by_n[n][1]:
            env.viol("C09:%s:absolute-offset" % mname, "absolute_offset %d, line %d starts at %d" % (off, n, by_n[n][1]), rp)
            continue
        want = data[off:off + len(lb)]
        if lb != want and not (lb.endswith(b"\n") and not want.endswith(b"\n") and lb[:-1] == data[off:]):
            env.viol("C09:%s:lines-are-not-the-files-bytes" % mname,
                     "lines %s vs file %s" % (esc(lb[:60]), esc(want[:60])), rp)
            continue
        concat += lb
        prev_end = -1
        for sm in d.get("submatches", []):
            sb, st = text_of(sm["match"])
            if st != is_utf8(sb):
                env.viol("C09:%s:text-vs-base64" % mname, "submatch encoding wrong", rp)
            s, e = sm["start"], sm["end"]
            if not (0 <= s <= e <= len(lb)) or lb[s:e] != sb:
                env.viol("C09:%s:submatch-is-not-a-slice" % mname,
                         "submatch %s at %d..%d of %s" % (esc(sb[:40]), s, e, esc(lb[:60])), rp)
            if s < prev_end:
                env.viol("C09:%s:submatches-overlap-or-unordered" % mname, "start %d < previous end %d" % (s, prev_end), rp)
            prev_end = e
        if t == "match" and not multiline and "lines" in case:
            refl = next((l for l in case["lines"] if l["n"] == n), None)
            sms = d.get("submatches", [])
            if refl and refl["spans"] and sms and not refl.get("quirk") and "-v" not in extra:
                if sms[0]["start"] != refl["spans"][0][0]:
                    env.viol("C09:%s:first-submatch-is-not-leftmost-match" % mname,
                             "first submatch starts at %d, reference says %d" % (sms[0]["start"], refl["spans"][0][0]), rp)
    if state not in ("done",):
        env.viol("C09:%s:message-order" % mname, "stream ended in state %s" % state, rp)
    if "--passthru" in extra and nmsg:
        if bytes(concat) != data and bytes(concat) != data + b"\n" and bytes(concat) != data + b"\r\n":
            env.viol("C09:%s:passthru-does-not-reproduce-input" % mname,
                     "concatenated lines (%d bytes) differ from the file (%d bytes)" % (len(concat), len(data)), rp)
    if nmsg:
        env.nontrivial((json.dumps(case.get("patterns", case.get("pattern"))), tuple(case["args"]), case["input"], mname))
    env.count("json_messages_checked", nmsg)


def cli_case(case, env):
    env.rng = common.Rng(common.mix(case["input"][:200], len(case["input"])) & 0xFFFFFFFF)
    data = unesc(case["input"])
    path = "f.txt"
    env.write(path, data)
    nl = b"\r\n" if case["flags"]["term"] == "crlf" else b"\n"
    check_text_modes(case, env, data, path, nl)
    check_json(case, env, data, path, [], "json")
    check_json(case, env, data, path, ["-C1"], "json-context")
    check_json(case, env, data, path, ["--passthru"], "json-passthru")
    check_line_history(case, env, data, path)
    env.sample({"argv": ["rg", "-n", "-b", "--column"] + case["args"] + sum([["-e", p] for p in case["patterns"]], []),
                "input": case["input"][:100]})


def check_line_history(case, env, data, path):
    """line mode: what is printed for f.txt does not depend on the file the
    same searcher went through before it - in particular not when that search
    was stopped early (-m1) with unread bytes left in its buffer (the earlier
    file has no final terminator and is larger than one buffer)"""
    rep = env.rep
    pats = sum([["-e", p] for p in case["patterns"]], [])
    fargs = ["-a", "--no-config", "--color", "never", "--no-heading", "-H", "-n", "-b", "--column", "-m1"] + case["args"]
    lead = data[: max(1, len(data) // 2)].rstrip(b"\r\n")
    big = (lead + b"\n") * (1 + 70000 // (len(lead) + 1)) + lead
    env.write("a_first.txt", big)
    rep["evaluations"] += 2
    alone = common.run_rg(fargs + pats + [path], env.tmp, env.home)
    both = common.run_rg(fargs + ["-j1", "--no-mmap"] + pats + ["a_first.txt", path], env.tmp, env.home)
    if alone is None or both is None:
        env.inconclusive("watchdog")
        return
    env.count("rg_runs", 2)
    if alone[0] == 2 or both[0] == 2:
        return
    def recs(out):
        return [ln for ln in out.split(b"\n") if ln.startswith(path.encode() + b":")]
    a, b = recs(alone[1]), recs(both[1])
    if a != b:
        env.viol("C09:history-line-mode:results-depend-on-the-previous-file",
                 "%s alone prints %s, after a stopped search of another file %s" % (
                     path, esc(a[0][:100]) if a else "<nothing>", esc(b[0][:100]) if b else "<nothing>"),
                 {"kind": "cli", "args": case["args"], "patterns": case["patterns"], "input": case["input"],
                  "argv_both": fargs + ["-j1", "--no-mmap"] + pats + ["a_first.txt", path]})


def check_ml_text(case, env, data, path):
    """-U --vimgrep: one record per match, at the line and column where the
    match starts, carrying that line's text; -U -n -b: every printed line is
    the file's line at that number and offset."""
    rep = env.rep
    lines = split_lines(data)
    by_n = {n: (n, s, e) for n, s, e in lines}
    starts = [s for _, s, _ in lines]
    import bisect
    fargs = ["-a", "--no-config", "--color", "never"] + case["args"]
    pats = ["-e", case["pattern"]]
    crlf = "--crlf" in case["args"]
    # expected (line, column) per match; an empty match right after the final
    # terminator is on no line
    want = []
    for s, e in case["match_spans"]:
        if s >= len(data):
            if data.endswith(b"\n") or not data:
                continue
            s = len(data)
        i = bisect.bisect_right(starts, s) - 1
        n, ls, le = lines[i]
        want.append((n, s - ls + 1))
    for mname, margs in (("multiline-vimgrep", ["--vimgrep", "-b"]), ("multiline-lines", ["-n", "-b", "--no-heading"])):
        rep["evaluations"] += 1
        r = common.run_rg(fargs + margs + pats + [path], env.tmp, env.home)
        if r is None:
            env.inconclusive("watchdog")
            continue
        env.count("rg_runs")
        if r[0] == 2:
            continue
        got = []
        bname = path.encode()
        ok = True
        for rec in r[1].split(b"\n"):
            if rec in (b"", b"--", b"--\r"):
                continue
            if mname == "multiline-vimgrep":
                if not rec.startswith(bname + b":"):
                    _bad(env, mname, "record without path", {"args": case["args"], "patterns": [case["pattern"]], "input": case["input"]}, margs, rec)
                    ok = False
                    break
                rec = rec[len(bname) + 1:]
                m = re.match(rb"^(\d+):(\d+):(\d+):", rec)
            else:
                m = re.match(rb"^(\d+)[:-](\d+)[:-]", rec)
            if not m:
                _bad(env, mname, "unparsable record", {"args": case["args"], "patterns": [case["pattern"]], "input": case["input"]}, margs, rec)
                ok = False
                break
            n = int(m.group(1))
            text = rec[m.end():]
            if n not in by_n:
                _bad(env, mname, "line number %d does not exist" % n, {"args": case["args"], "patterns": [case["pattern"]], "input": case["input"]}, margs, rec)
                ok = False
                break
            _, ls, le = by_n[n]
            lb = data[ls:le]
            want_text = lb[:-1] if lb.endswith(b"\n") else lb + (b"\r" if crlf else b"")
            c = {"args": case["args"], "patterns": [case["pattern"]], "input": case["input"]}
            if crlf and text == want_text + b"\r" and not lb.endswith(b"\r\n"):
                # a line ended by a lone LF is re-terminated with CRLF by the
                # per-match printer: same content
                text = want_text
            if text != want_text:
                _bad(env, mname, "printed text is not line %d of the file" % n, c, margs, rec)
                ok = False
                break
            if mname == "multiline-vimgrep":
                col, off = int(m.group(2)), int(m.group(3))
                # (in multi-line mode rg prints the line's offset, in line
                # mode the match's; both identify the line and the match)
                if off != ls + col - 1 and off != ls:
                    _bad(env, mname, "offset %d is neither line start %d nor line start + column %d - 1" % (off, ls, col), c, margs, rec)
                    ok = False
                    break
                got.append((n, col))
            else:
                off = int(m.group(2))
                if off != ls:
                    _bad(env, mname, "offset %d, line %d starts at %d" % (off, n, ls), c, margs, rec)
                    ok = False
                    break
            env.count("records_checked")
        all_nonempty = all(e > s for s, e in case["match_spans"])
        if ok and mname == "multiline-vimgrep" and all_nonempty and got != want:
            _bad(env, mname, "records at (line, column) %s, whole-input matches start at %s" % (got[:6], want[:6]),
                 {"args": case["args"], "patterns": [case["pattern"]], "input": case["input"]}, margs, b"", "match-positions")
        if got:
            env.nontrivial((case["pattern"], tuple(case["args"]), case["input"], mname))


def check_ml_history(case, env, data, path):
    """What is printed for a file does not depend on what the same searcher
    searched before it: f.txt alone vs f.txt as the second of two files of a
    single-threaded run whose inputs arrive through a preprocessor (the
    incremental-reader route of multi-line search)."""
    rep = env.rep
    fargs = ["-a", "--no-config", "--color", "never"] + case["args"]
    pats = ["-e", case["pattern"]]
    env.write("a_first.txt", b"zzz first\nneedle 1\n" + data[: len(data) // 2] + b"\nlast of first\n")
    for mname, margs in (("history-vimgrep", ["--vimgrep", "-b"]), ("history-json", ["--json"])):
        rep["evaluations"] += 2
        alone = common.run_rg(fargs + margs + ["-H"] + pats + [path], env.tmp, env.home)
        both = common.run_rg(fargs + margs + ["-H", "-j1", "--pre", "/bin/cat"] + pats + ["a_first.txt", path], env.tmp, env.home)
        if alone is None or both is None:
            env.inconclusive("watchdog")
            continue
        env.count("rg_runs", 2)
        if alone[0] == 2 or both[0] == 2:
            continue
        if mname == "history-json":
            def recs(out):
                keep = []
                for ln in out.split(b"\n"):
                    if not ln:
                        continue
                    try:
                        o = json.loads(ln)
                    except ValueError:
                        keep.append(ln)
                        continue
                    if o.get("type") in ("match", "context") and o["data"]["path"].get("text") == path:
                        keep.append(json.dumps(o["data"], sort_keys=True).encode())
                return keep
        else:
            def recs(out):
                return [ln for ln in out.split(b"\n") if ln.startswith(path.encode() + b":")]
        a, b = recs(alone[1]), recs(both[1])
        if mname == "history-vimgrep":
            # ... and an empty file after a file with matches has nothing to report
            env.write("b_empty.txt", b"")
            for route in (["--pre", "/bin/cat"], ["--no-mmap"]):
                rep["evaluations"] += 1
                em = common.run_rg(fargs + margs + ["-H", "-j1"] + route + pats + ["a_first.txt", "b_empty.txt", path], env.tmp, env.home)
                if em is not None and em[0] != 2:
                    env.count("rg_runs")
                    ghost = [ln for ln in em[1].split(b"\n") if ln.startswith(b"b_empty.txt:")]
                    if ghost:
                        env.viol("C09:history-empty-file:records-for-an-empty-file",
                                 "an empty file searched after another one reports %s" % esc(ghost[0][:100]),
                                 {"kind": "cli", "args": case["args"], "pattern": case["pattern"], "input": case["input"],
                                  "argv": fargs + margs + ["-j1"] + route + pats + ["a_first.txt", "b_empty.txt", path]})
        if a != b:
            i = next((k for k in range(min(len(a), len(b))) if a[k] != b[k]), min(len(a), len(b)))
            env.viol("C09:%s:results-depend-on-the-previous-file" % mname,
                     "record %d of %s: alone %s, after another file %s" % (
                         i, path, esc(a[i][:100]) if i < len(a) else "<none>", esc(b[i][:100]) if i < len(b) else "<none>"),
                     {"kind": "cli", "args": case["args"], "pattern": case["pattern"], "input": case["input"],
                      "argv_alone": fargs + margs + pats + [path],
                      "argv_both": fargs + margs + ["-j1", "--pre", "/bin/cat"] + pats + ["a_first.txt", path]})


def ml_case(case, env):
    data = unesc(case["input"])
    path = "f.txt"
    env.write(path, data)
    check_ml_text(case, env, data, path)
    check_ml_history(case, env, data, path)
    c = dict(case)
    c["args"] = [a for a in case["args"]]
    check_json(c, env, data, path, [], "json-multiline", multiline=True)
    check_json(c, env, data, path, ["-C1"], "json-multiline-context", multiline=True)


def nul_ml_case(case0, env):
    """--null-data -U with matches that span records: every printed record is
    `N:OFFSET:content` of record N of the input (records end in NUL and may
    contain LF), in the plain and in the slow (column) printer paths."""
    rep = env.rep
    rng = common.Rng(case0["seed"])
    words = [b"alpha", b"foo", b"bar", b"beta\ngamma", b"x", b"", b"foo\nbar", b"needle", b"zz\n", b"\nq"]
    recs = [rng.pick(words) for _ in range(rng.range(2, 14))]
    data = b"\0".join(recs) + (b"\0" if rng.chance(3, 4) else b"")
    path = env.write("n.bin", data)
    # a pattern made of the end of one record, the NUL, and the start of the next
    k = rng.below(len(recs) - 1)
    left = recs[k][-3:].replace(b"\n", b"")[-2:]
    right = recs[k + 1][:3].replace(b"\n", b"")[:2]
    def lit(b):
        return "".join("\\x%02x" % c if not (48 <= c <= 57 or 97 <= c <= 122) else chr(c) for c in b)
    pat = rng.pick([lit(left) + "\\n?\\x00\\n?" + lit(right), "[a-z]\\x00[a-z]", "\\x00foo", "(?s:o.b)", "a\\x00(?s:.)"])
    starts, pos = [], 0
    for r in recs:
        starts.append(pos)
        pos += len(r) + 1
    for mname, margs in (("nul-multiline", ["-n", "-b"]), ("nul-multiline-context", ["-n", "-b", "-C1"]),
                         ("nul-multiline-column", ["-n", "-b", "--column"])):
        rep["evaluations"] += 1
        argv = ["-a", "--no-config", "--color", "never", "--no-heading", "--null-data", "-U"] + margs + ["-e", pat, path]
        r = common.run_rg(argv, env.tmp, env.home)
        if r is None:
            env.inconclusive("watchdog")
            continue
        env.count("rg_runs")
        if r[0] == 2:
            env.count("nul_patterns_rejected")
            continue
        out = r[1]
        printed = 0
        for rec in out.split(b"\0"):
            if rec in (b"", b"--", b"\n"):
                continue
            m = re.match(rb"^(\d+)[:-](?:(\d+)[:-])?(\d+)[:-]", rec) if mname.endswith("column") else re.match(rb"^(\d+)[:-](\d+)[:-]", rec)
            bad = None
            if not m:
                bad = "unparsable record"
            else:
                n = int(m.group(1))
                off = int(m.group(m.lastindex))
                text = rec[m.end():]
                if not (1 <= n <= len(recs)):
                    bad = "record number %d does not exist" % n
                elif off != starts[n - 1]:
                    bad = "offset %d, record %d starts at %d" % (off, n, starts[n - 1])
                elif text != recs[n - 1]:
                    bad = "printed text is not record %d" % n
            if bad:
                env.viol("C09:%s:%s" % (mname, bad.split(",")[0].split(" %")[0].replace(" ", "-")[:40]),
                         "%s: %s (pattern %s)" % (bad, esc(rec[:80]), pat),
                         {"kind": "cli", "argv": argv[:-1] + ["<file>"], "input": esc(data), "stdout": esc(out[:1500])})
                break
            printed += 1
            env.count("records_checked")
        if printed:
            env.nontrivial((pat, data, mname))
    env.sample({"argv": ["rg", "--null-data", "-U", "-n", "-b", "-e", pat], "input": esc(data[:100])}, limit=1)


def check(tier, seed, t0):
    common.build_harness()
    common.build_rg()
    total = 1000 if tier == "quick" else 40000
    parts = [("text+json", common.run_cli_cases("c09", cli_case, seed, "c09", total, 63 if tier == "quick" else 200)),
             ("multiline", common.run_cli_cases("c13", ml_case, seed, "c09u", total // 2, 32 if tier == "quick" else 200)),
             ("nul-multiline", common.run_cli_cases(None, nul_ml_case, seed, "c09n", total // 4, 16 if tier == "quick" else 100))]
    rep = common.merge_reports(parts)
    return common.finalize("C09", tier, seed, "exploration", RULE, rep, t0, ASSUME, floor_eval=300, floor_distinct=100)


def replay(path):
    with open(path) as f:
        body = json.load(f)
    print(json.dumps(body.get("replay", body), indent=1)[:6000])
    return 0
