"""C14 — binary data never reaches the terminal unless text mode is requested.

Leg `lib`: rgmon c14 (the real Standard printer attached to every search
strategy, all read fragmentations and roll buffer capacities; output bytes,
prefix relation with text mode, notices, binary_data coordinates).
Leg `cli`: the rg binary on generated trees: implicit (traversal) vs explicit
paths vs --binary vs stdin, --mmap / --no-mmap, several output modes.
Leg `asan` (thorough): the same CLI workload on an AddressSanitizer build.
"""

import json
import os
import re
import subprocess

import common
from common import esc, unesc

RULE = ("cases = C02-style inputs with 1-3 NUL bytes planted (offset 0, inside / right after a matching line, "
        "last byte, at 65535/65536/65537 and beyond in inputs grown past 64 KiB, random), context flags, invert; "
        "library leg: Standard printer output under quit and convert detection for slice, mmap, file and scripted "
        "readers (capacities 1..4096, fragmented reads) vs the output with detection off; CLI leg: the same file "
        "searched implicitly (directory traversal), explicitly, with --binary, via stdin, with --mmap/--no-mmap, "
        "and under -c/-l/--json/-o/--vimgrep. Oracles: no NUL byte in the output; printed lines are a prefix of "
        "the --text results (entirely before the first NUL for reader strategies); quit mode: warning iff cut "
        "after printing; convert mode: 'binary file matches' notice unless nothing matches; neighbouring text "
        "files unaffected. Non-trivial = text mode prints at least one matching line; distinct by hash of "
        "(configuration, input).")

ASSUME = [
    "which lines before the first NUL get printed is strategy dependent by documentation: only prefix-ness is demanded",
    "--text output itself is judged by C01/C03, here it is the reference",
    "'no notice and no line' counts as a violation only when both the raw and the NUL->LF converted content contain a matching line",
]

REC = re.compile(rb"^(.*?)([:-])(\d+)\2(\d+)\2(.*)$", re.S)


def parse(out, fname):
    """records of one file from -H -n -b --no-heading output"""
    recs, warning, notice, other = [], False, False, []
    pfx = fname.encode()
    for line in out.split(b"\n"):
        if line in (b"", b"--"):
            continue
        if not line.startswith(pfx):
            other.append(line)
            continue
        rest = line[len(pfx):]
        if rest.startswith(b": WARNING: stopped searching binary file"):
            warning = True
            continue
        if rest.startswith(b": binary file matches"):
            notice = True
            continue
        m = re.match(rb"^([:-])(\d+)\1(\d+)\1(.*)$", rest, re.S)
        if not m:
            other.append(line)
            continue
        recs.append((m.group(1) == b":", int(m.group(2)), int(m.group(3)), m.group(4)))
    return recs, warning, notice, other


def plant(data, rng):
    data = bytearray(data)
    n = len(data)
    pos = []
    for _ in range(rng.range(1, 3)):
        k = rng.below(7)
        if k == 0:
            p = 0
        elif k == 1:
            p = n - 1
        elif k in (2, 3):
            starts = [i for i in range(n) if data[i] == ord("m") and (i == 0 or data[i - 1] == 10)]
            p = (rng.pick(starts) + rng.below(3)) if starts else rng.below(n)
        elif k == 4 and n > 65537:
            p = rng.pick([65535, 65536, 65537])
        else:
            p = rng.below(n)
        p = min(p, n - 1)
        data[p] = 0
        pos.append(p)
    return bytes(data), sorted(set(pos))


def cli_case(case, env):
    rep = env.rep
    rng = common.Rng(common.mix(case["input"], case["pattern"]) & 0xFFFFFFFF)
    data = unesc(case["input"])
    if case["term"] != "lf" or case["stop_on_nonmatch"] or len(data) < 2:
        return
    if rng.chance(1, 10):
        unit = data
        while len(data) < 70000:
            data += unit
    data, nuls = plant(data, rng)
    first_nul = data.index(b"\0")
    d = os.path.join(env.tmp, "d")
    os.makedirs(d)
    with open(os.path.join(d, "f.bin"), "wb") as f:
        f.write(data)
    text = b"m text one\nxyz\nm text two\n"
    with open(os.path.join(d, "t.txt"), "wb") as f:
        f.write(text)
    args = [a for a in case["args"] if a not in ("-N", "-n", "--stop-on-nonmatch")]
    base = ["--no-config", "--color", "never", "--no-heading", "-H", "-n", "-b", "-j1"] + args + ["-e", case["pattern"]]

    def run(extra, stdin=None):
        rep["evaluations"] += 1
        r = common.run_rg(base + extra, env.tmp, env.home, stdin=stdin)
        if r is None:
            env.inconclusive("watchdog")
        else:
            env.count("rg_runs")
        return r

    ref = run(["-a", "d/f.bin"])
    tref = run(["-a", "d/t.txt"])
    if ref is None or tref is None:
        return
    R, _, _, _ = parse(ref[1], "d/f.bin")
    TR, _, _, _ = parse(tref[1], "d/t.txt")
    raw_has_match = any(r[0] for r in R)
    if raw_has_match:
        env.nontrivial((tuple(args), bytes(data)))
    variants = [
        ("explicit-mmap", ["--mmap", "d/f.bin"], None, "convert", "d/f.bin", False),
        ("explicit-nommap", ["--no-mmap", "d/f.bin"], None, "convert", "d/f.bin", True),
        ("stdin", ["-"], data, "convert", "<stdin>", True),
        ("implicit-mmap", ["--mmap", "d"], None, "quit", "d/f.bin", False),
        ("implicit-nommap", ["--no-mmap", "d"], None, "quit", "d/f.bin", True),
        ("binary-flag", ["--binary", "--no-mmap", "d"], None, "convert", "d/f.bin", True),
    ]
    for name, extra, stdin, mode, fname, reader in variants:
        r = run(extra, stdin)
        if r is None:
            continue
        status, so, se = r
        rp = {"kind": "cli", "argv": base + extra, "input": esc(data[:4000]) if len(data) < 20000 else "(%d bytes)" % len(data),
              "nuls": nuls, "stdout": esc(so[:3000]), "stderr": esc(se[:300])}
        if b"\0" in so:
            env.viol("C14:cli:%s:nul-in-output" % name, "NUL byte in stdout of rg %s" % " ".join(extra), rp)
            continue
        P, warning, notice, other = parse(so, fname)
        if fname != "<stdin>":
            T, _, _, _ = parse(so, "d/t.txt")
            if extra[-1] == "d" and T != TR:
                env.viol("C14:cli:%s:text-file-affected" % name,
                         "results of the neighbouring text file changed", rp)
        if not (len(P) <= len(R) and P == R[:len(P)]):
            env.viol("C14:cli:%s:not-a-prefix-of-text-mode" % name,
                     "printed lines are not a prefix of the --text results (%d vs %d)" % (len(P), len(R)), rp)
            continue
        if reader:
            late = [p for p in P if p[2] + len(p[3]) + 1 > first_nul]
            if late:
                env.viol("C14:cli:%s:line-at-or-after-first-nul-printed" % name,
                         "line %d printed although the first NUL is at %d" % (late[0][1], first_nul), rp)
        cut = len(P) < len(R)
        if cut:
            env.count("searches_cut")
        if mode == "quit":
            if notice:
                env.viol("C14:cli:%s:wrong-notice" % name, "traversed file got the explicit-file notice", rp)
            if cut and any(p[0] for p in P) and not warning:
                env.viol("C14:cli:%s:cut-without-warning" % name, "cut after printing but no warning", rp)
        else:
            if warning:
                env.viol("C14:cli:%s:wrong-notice" % name, "explicit file got the traversal warning", rp)
            conv_has = False
            if cut and not notice:
                conv = data.replace(b"\0", b"\n")
                cp = env.write("conv", conv)
                rr = common.run_rg(["--no-config", "-a", "-q"] + args + ["-e", case["pattern"], cp], env.tmp, env.home)
                conv_has = rr is not None and rr[0] == 0
            if cut and not notice and (any(p[0] for p in P) or (raw_has_match and conv_has)):
                env.viol("C14:cli:%s:matches-dropped-without-notice" % name,
                         "binary file has matching lines (text mode prints %d), %d printed, no notice, status %d" % (len(R), len(P), status), rp)
    # other output modes: hard safety only
    for name, extra in (("count", ["-c", "d"]), ("files", ["-l", "d"]), ("json", ["--json", "d"]),
                        ("only-matching", ["-o", "d/f.bin"]), ("vimgrep", ["--vimgrep", "d/f.bin"]),
                        ("replace", ["-r", "X", "d/f.bin"]), ("count-explicit", ["-c", "d/f.bin"]),
                        ("multiline", ["-U", "d/f.bin"]), ("multiline-implicit", ["-U", "d"])):
        if name == "json":
            r = run(extra)
        else:
            r = run(extra)
        if r is None:
            continue
        if b"\0" in r[1]:
            env.viol("C14:cli:mode-%s:nul-in-output" % name, "NUL byte in stdout of rg %s" % " ".join(extra),
                     {"kind": "cli", "argv": base + extra, "input": esc(data[:4000]), "stdout": esc(r[1][:2000])})
    # modes that also report files WITHOUT a match: a traversed file in which
    # a NUL byte was met is dropped there too (the incremental reader examines
    # every byte)
    for name, extra in (("files-without-match", ["--files-without-match"]),
                        ("count-include-zero", ["-c", "--include-zero"]),
                        ("count-matches-include-zero", ["--count-matches", "--include-zero"])):
        r = run(["--no-mmap"] + extra + ["d"])
        if r is None:
            continue
        if b"f.bin" in r[1]:
            env.viol("C14:cli:mode-%s:binary-file-reported" % name,
                     "rg --no-mmap %s d reports the traversed binary file: %s" % (" ".join(extra), esc(r[1][:200])),
                     {"kind": "cli", "argv": base + ["--no-mmap"] + extra + ["d"], "input": esc(data[:4000]),
                      "nuls": nuls, "stdout": esc(r[1][:2000])})
    env.sample({"argv": ["rg"] + base + ["{d | d/f.bin | --binary d | - }"], "nul_positions": nuls,
                "input_len": len(data), "text_mode_lines": len(R)})


def check(tier, seed, t0):
    common.build_harness()
    common.build_rg()
    total = 500 if tier == "quick" else 8000
    parts = [("lib", common.run_rgmon("c14", tier, seed)),
             ("cli", common.run_cli_cases("c03", cli_case, seed, "c14cli", total, 32 if tier == "quick" else 100))]
    if tier == "thorough":
        import sanitize
        parts.append(("asan", sanitize.rg_sanitizer_leg("C14", "asan", cli_case, "c03", 80, 5)(tier, seed)))
    rep = common.merge_reports(parts)
    return common.finalize("C14", tier, seed, "exploration", RULE, rep, t0, ASSUME,
                           floor_eval=500, floor_distinct=200)


def replay(path):
    with open(path) as f:
        body = json.load(f)
    rp = body.get("replay", body)
    if rp.get("kind") == "cli":
        print(json.dumps(rp, indent=1)[:6000])
        return 0
    common.build_harness()
    return subprocess.run([common.RGMON, "replay", "c14", path]).returncode
