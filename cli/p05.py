"""C05 — which files are searched follows the documented precedence of
filters. `rg --files [flags] [roots]` vs an executable model of the documented
decision procedure on generated trees with conflicting rules planted across
the rule sources."""

import json
import os
import subprocess

import common
from common import esc

RULE = ("cases = a tree T/w/... (search root w: 2-3 levels, files with extensions .foo/.bar/.txt, hidden files and "
        "directories) with rules planted in any subset of the seven sources (-g globs, .rgignore, .ignore, "
        ".gitignore, .git/info/exclude, global git ignore file, --ignore-file) at 0-3 levels including above the "
        "search root, with CONFLICTING verdicts on shared targets (source X ignores what source Y whitelists), a "
        ".git directory at the top, at the root or absent; 0-3 flags from --hidden, --no-ignore, --no-ignore-vcs, "
        "-dot, -exclude, -global, -parent, -files, -u, -uu, --no-require-git; optional -t/-T with --type-add, "
        "--max-depth; roots given as '.', relative, absolute, several, plus an explicitly named ignored/hidden "
        "file. The model evaluates every entry top-down (a pruned directory hides its subtree) in the documented "
        "order: overrides, then sources in precedence order each scanned from the nearest directory upward, then "
        "types, then hidden unless whitelisted. Rule shapes are restricted to name, *.ext, dir/, /anchored, !neg "
        "(precedence is the subject, glob semantics belong to C04/C12). Non-trivial = at least one file listed "
        "and one filtered; distinct by hash of (tree, rules, flags, roots).")

ASSUME = [
    "the documented order is taken from the ignore crate's WalkBuilder documentation and the rg flag documentation",
    "situations the documentation does not settle are not generated: nested repositories, -g globs that could match directories, --no-ignore-parent together with a .git above the search root",
    "environment pinned: HOME/XDG point into the case directory, GIT_CONFIG_GLOBAL=/dev/null",
    "--ignore-file rules anchored relative to the current directory are only generated with relative search roots (how they meet an absolute root is not documented)",
]

EXTS = [".foo", ".bar", ".txt"]
FILES = ["a.foo", "b.foo", "a.bar", "c.bar", "k.txt", "n.txt", ".hid.foo", ".h.bar", "plain", "x.foo", "y.bar"]
DIRS = ["d1", "d2", ".hd", "sub"]
SOURCES = ["rgignore", "ignore", "gitignore", "exclude", "global", "explicit"]
SRCFILE = {"rgignore": ".rgignore", "ignore": ".ignore", "gitignore": ".gitignore"}


def rule_matches(rule, comps, is_dir):
    """comps: path of the entry relative to the rule file's directory"""
    r = rule[1:] if rule.startswith("!") else rule
    base = comps[-1]
    if "/" in r.strip("/"):
        # a path with an inner slash is anchored to the rule file's directory
        want = r.strip("/").split("/")
        return comps == want and (is_dir or not r.endswith("/"))
    if r.endswith("/"):
        return is_dir and base == r[:-1]
    if r.startswith("/"):
        return len(comps) == 1 and base == r[1:]
    if r.startswith("*."):
        return base.endswith(r[1:])
    return base == r


def file_verdict(rules, comps, is_dir):
    v = None
    for r in rules:
        if rule_matches(r, comps, is_dir):
            v = "white" if r.startswith("!") else "ignore"
    return v


class Model:
    def __init__(self, case):
        self.c = case

    def enabled(self, src):
        f = self.c["flags"]
        no_ignore = "--no-ignore" in f or "-u" in f or "-uu" in f
        if src in ("rgignore", "ignore"):
            return not (no_ignore or "--no-ignore-dot" in f)
        if src == "gitignore":
            return not (no_ignore or "--no-ignore-vcs" in f)
        if src == "exclude":
            return not (no_ignore or "--no-ignore-vcs" in f or "--no-ignore-exclude" in f)
        if src == "global":
            return not (no_ignore or "--no-ignore-vcs" in f or "--no-ignore-global" in f)
        if src == "explicit":
            return "--no-ignore-files" not in f
        return True

    def parents_enabled(self):
        f = self.c["flags"]
        return not ("--no-ignore-parent" in f or "--no-ignore" in f or "-u" in f or "-uu" in f)

    def hidden_filter(self):
        f = self.c["flags"]
        return not ("--hidden" in f or "-uu" in f)

    def decide(self, abs_comps, is_dir, root_comps, stats):
        """abs_comps: components relative to T of the entry"""
        c = self.c
        base = abs_comps[-1]
        # 1. overrides
        if c["globs"]:
            v = None
            for g in c["globs"]:
                neg = g.startswith("!")
                body = g[1:] if neg else g
                if rule_matches(body, abs_comps, is_dir):
                    v = "ignore" if neg else "white"
            if v == "white":
                return True
            if v == "ignore":
                return False
            if not is_dir and any(not g.startswith("!") for g in c["globs"]):
                return False
        # 2. ignore files, by precedence
        git_dir = c["git_at"]            # components of the dir holding .git, or None
        parents = self.parents_enabled()
        dirs_up = [abs_comps[:i] for i in range(len(abs_comps) - 1, -1, -1)]   # nearest first, down to T ([])
        in_repo = "--no-require-git" in c["flags"]
        if git_dir is not None:
            for d in dirs_up:
                if d == git_dir and (parents or len(d) >= len(root_comps)):
                    in_repo = True
        hits = {}
        for src in SOURCES:
            if not self.enabled(src):
                continue
            if src in ("gitignore", "exclude", "global") and not in_repo:
                continue
            v = None
            if src in SRCFILE:
                for d in dirs_up:
                    if len(d) < len(root_comps) and not parents:
                        break
                    # git rules stop at the repository root
                    # (with --no-require-git no repository is looked for, so
                    # there is no boundary either)
                    if src == "gitignore" and git_dir is not None and len(d) < len(git_dir) \
                            and "--no-require-git" not in c["flags"]:
                        break
                    rules = c["rules"].get(src, {}).get("/".join(d))
                    if rules:
                        v = file_verdict(rules, abs_comps[len(d):], is_dir)
                        if v:
                            break
            elif src == "exclude":
                if git_dir is not None and abs_comps[:len(git_dir)] == git_dir and \
                        (parents or len(git_dir) >= len(root_comps)):
                    v = file_verdict(c["rules"].get("exclude", []), abs_comps[len(git_dir):], is_dir)
            elif src == "global":
                v = file_verdict(c["rules"].get("global", []), abs_comps, is_dir)
            elif src == "explicit":
                # relative to the current working directory
                cw = c.get("cwd_comps", [])
                rel = abs_comps[len(cw):] if abs_comps[:len(cw)] == cw else abs_comps
                v = file_verdict(c["rules"].get("explicit", []), rel, is_dir)
            if v:
                hits[src] = v
        whitelisted = False
        if hits:
            order = [s for s in SOURCES if s in hits]
            win = order[0]
            for lose in order[1:]:
                if hits[lose] != hits[win]:
                    stats["decisive:%s>%s" % (win, lose)] = stats.get("decisive:%s>%s" % (win, lose), 0) + 1
            if hits[win] == "ignore":
                return False
            whitelisted = True
        # 3. types (files only)
        if not is_dir and (c["type_sel"] or c["type_neg"]):
            ismatch = base.endswith(".foo")
            if c["type_neg"] and ismatch:
                return False
            if c["type_sel"]:
                if ismatch:
                    whitelisted = True
                else:
                    return False
        # 4. hidden
        if self.hidden_filter() and base.startswith(".") and not whitelisted:
            return False
        return True

    def listing(self, stats):
        c = self.c
        out = set()
        tree = c["tree"]    # dict path(T-relative) -> 'd' | 'f'
        children = {}
        for p, k in tree.items():
            comps = p.split("/")
            children.setdefault("/".join(comps[:-1]), []).append((comps, k))
        for root in c["roots_rel"]:
            rc = root.split("/") if root else []
            kind = tree.get(root, "d")
            if kind == "f":
                out.add(root)            # an explicitly named file is always searched
                continue
            root_comps = rc

            def rec(dcomps, depth):
                for comps, k in children.get("/".join(dcomps), []):
                    if c["max_depth"] is not None and depth > c["max_depth"]:
                        continue
                    ok = self.decide(comps, k == "d", root_comps, stats)
                    if not ok:
                        continue
                    if k == "d":
                        rec(comps, depth + 1)
                    else:
                        out.add("/".join(comps))
            rec(rc, 1)
        return out


def gen_case(rng):
    tree = {}
    root = "w"
    tree[root] = "d"

    def add_files(prefix, n):
        for name in rng.sample(FILES, n):
            tree[prefix + "/" + name] = "f"
    add_files(root, rng.range(2, 6))
    for d in rng.sample(DIRS, rng.range(1, 3)):
        tree[root + "/" + d] = "d"
        add_files(root + "/" + d, rng.range(1, 5))
        if rng.chance(1, 3):
            dd = rng.pick(DIRS)
            tree[root + "/" + d + "/" + dd] = "d"
            add_files(root + "/" + d + "/" + dd, rng.range(1, 3))
    git_at = rng.pick([None, [], ["w"], [], ["w"]])
    # candidate rules: targets from the tree
    names = sorted(set(p.split("/")[-1] for p, k in tree.items() if k == "f"))
    dnames = sorted(set(p.split("/")[-1] for p, k in tree.items() if k == "d" and p != root))

    def gen_rule(allow_anchor=True, allow_dir=True):
        k = rng.below(10)
        if k < 4:
            r = rng.pick(names)
        elif k < 7:
            r = "*" + rng.pick(EXTS)
        elif k < 8 and allow_dir and dnames:
            r = rng.pick(dnames) + "/"
        elif k < 9 and allow_anchor:
            r = "/" + rng.pick(names)
        else:
            r = rng.pick(names)
        if rng.chance(2, 5):
            r = "!" + r
        return r
    rules = {}
    used = rng.sample(SOURCES, rng.range(1, 5))
    dirs_for_files = ["", "w"] + [p for p, k in tree.items() if k == "d" and p != "w"]
    for src in used:
        if src in SRCFILE:
            rules[src] = {}
            for d in rng.sample(dirs_for_files, rng.range(1, 2)):
                rules[src][d] = [gen_rule() for _ in range(rng.range(1, 3))]
        elif src == "exclude":
            if git_at is not None:
                rules[src] = [gen_rule() for _ in range(rng.range(1, 3))]
        else:
            rules[src] = [gen_rule(allow_anchor=False) for _ in range(rng.range(1, 3))]
    # anchored paths (inner slash): relative to the directory of the rule file,
    # whatever the search roots are
    for src in used:
        if src in SRCFILE:
            for d in list(rules.get(src, {})):
                if rng.chance(1, 2):
                    pre = d + "/" if d else ""
                    cands = sorted(p[len(pre):] for p in tree if p.startswith(pre) and p[len(pre):].count("/") >= 1
                                   and "/.git" not in p)
                    if cands:
                        r = rng.pick(cands)
                        if rng.chance(1, 2):
                            r = "/" + r
                        if rng.chance(1, 4):
                            r = "!" + r
                        rules[src][d].append(r)
    # a line that is not a valid glob: reported, skipped, and nothing else
    # (the other lines, the other files) may change because of it
    for src in used:
        if rng.chance(1, 8):
            v = rules.get(src)
            if isinstance(v, dict):
                for d in v:
                    v[d].insert(rng.below(len(v[d]) + 1), rng.pick(["[oops", "x[", "[z-a]"]))
                    break
            elif isinstance(v, list):
                v.insert(rng.below(len(v) + 1), rng.pick(["[oops", "x["]))
    # plant conflicts on a shared target
    if len(used) >= 2 and rng.chance(2, 3):
        tgt = rng.pick(names) if rng.chance(2, 3) else "*" + rng.pick(EXTS)
        a, b = rng.sample(used, 2)
        for src, rule in ((a, tgt), (b, "!" + tgt)):
            if src in SRCFILE:
                rules.setdefault(src, {}).setdefault(rng.pick(["", "w"]), []).append(rule)
            elif src == "exclude":
                if git_at is not None:
                    rules.setdefault(src, []).append(rule)
            else:
                rules.setdefault(src, []).append(rule)
    flags_pool = ["--hidden", "--no-ignore", "--no-ignore-vcs", "--no-ignore-dot", "--no-ignore-exclude",
                  "--no-ignore-global", "--no-ignore-parent", "--no-ignore-files", "-u", "-uu", "--no-require-git"]
    flags = rng.sample(flags_pool, rng.pick([0, 0, 1, 1, 2, 3]))
    # documented-silent corner: no-ignore-parent with .git above the root
    if git_at == [] and any(f in flags for f in ("--no-ignore-parent", "--no-ignore", "-u", "-uu")):
        git_at = ["w"] if rng.chance(1, 2) else None
        if git_at is None:
            rules.pop("exclude", None)
    globs = []
    if rng.chance(1, 4):
        for _ in range(rng.range(1, 2)):
            g = "*" + rng.pick(EXTS)
            if rng.chance(1, 3):
                g = "!" + g
            globs.append(g)
        # keep directories out of the way of -g: no directory-targeting rules
        for src, v in list(rules.items()):
            if isinstance(v, dict):
                for d in v:
                    v[d] = [r for r in v[d] if not r.endswith("/")]
            else:
                rules[src] = [r for r in v if not r.endswith("/")]
    type_sel = rng.chance(1, 6)
    type_neg = (not type_sel) and rng.chance(1, 8)
    max_depth = rng.pick([None, None, None, 1, 2])
    form = rng.below(5)
    # --ignore-file rules "are matched relative to the current working
    # directory", wherever the rules file itself lies: sometimes it lies in a
    # directory of the tree and carries a rule anchored (relative to the cwd)
    # at an entry below that very directory
    cwd_comps = [] if form in (1, 2) else ["w"]
    explicit_at = None
    # (not with an absolute search root: how a cwd-relative anchored rule meets
    # an absolute path is not documented - ripgrep does not relate them)
    if rules.get("explicit") and not globs and form != 2 and rng.chance(1, 2):
        pre = "/".join(cwd_comps) + "/" if cwd_comps else ""
        subdirs2 = sorted(p for p, k in tree.items() if k == "d" and p.startswith("w/") and "/.git" not in p)
        if subdirs2:
            explicit_at = rng.pick(subdirs2)
            below = sorted(p for p, k in tree.items() if p.startswith(explicit_at + "/") and "/.git" not in p)
            if below and rng.chance(3, 4):
                tgt = rng.pick(below)[len(pre):]
                rules["explicit"].append(rng.pick(["/", ""]) + tgt if "/" in tgt else "/" + tgt)
    case = {"tree": tree, "git_at": git_at, "rules": rules, "flags": flags, "globs": globs,
            "type_sel": type_sel, "type_neg": type_neg, "max_depth": max_depth, "form": form,
            "cwd_comps": cwd_comps, "explicit_at": explicit_at}
    return case


def cli_case(case0, env):
    rep = env.rep
    rng = common.Rng(case0["seed"])
    case = gen_case(rng)
    rep["evaluations"] += 1
    T = os.path.join(env.tmp, "T")
    os.makedirs(T)
    for p, k in sorted(case["tree"].items()):
        full = os.path.join(T, p)
        if k == "d":
            os.makedirs(full, exist_ok=True)
        else:
            os.makedirs(os.path.dirname(full), exist_ok=True)
            with open(full, "w") as f:
                f.write("x\n")
    if case["git_at"] is not None:
        g = os.path.join(T, *case["git_at"], ".git")
        os.makedirs(os.path.join(g, "info"), exist_ok=True)
        case["tree"]["/".join(case["git_at"] + [".git"])] = "d"
        case["tree"]["/".join(case["git_at"] + [".git", "info"])] = "d"
    for src, fname in SRCFILE.items():
        for d, rules in case["rules"].get(src, {}).items():
            if rules:
                with open(os.path.join(T, d, fname), "w") as f:
                    f.write("\n".join(rules) + "\n")
                case["tree"][(d + "/" if d else "") + fname] = "f"
    if case["rules"].get("exclude") and case["git_at"] is not None:
        with open(os.path.join(T, *case["git_at"], ".git", "info", "exclude"), "w") as f:
            f.write("\n".join(case["rules"]["exclude"]) + "\n")
        case["tree"]["/".join(case["git_at"] + [".git", "info", "exclude"])] = "f"
    # the global git ignore file, designated in one of the documented ways:
    # the default $XDG_CONFIG_HOME/git/ignore, core.excludesFile in
    # ~/.gitconfig, or core.excludesFile in $XDG_CONFIG_HOME/git/config with a
    # ~/.gitconfig that is absent / present without that key
    gd = os.path.join(env.home, ".config", "git")
    for stale in (os.path.join(gd, "ignore"), os.path.join(gd, "config"), os.path.join(env.home, ".gitconfig"),
                  os.path.join(env.home, "my-global-ignore")):
        try:
            os.unlink(stale)
        except OSError:
            pass
    if case["rules"].get("global"):
        os.makedirs(gd, exist_ok=True)
        how = rng.below(4)
        env.count("global_ignore_designation_%d" % how)
        target = os.path.join(gd, "ignore") if how == 0 else os.path.join(env.home, "my-global-ignore")
        with open(target, "w") as f:
            f.write("\n".join(case["rules"]["global"]) + "\n")
        if how == 1:
            with open(os.path.join(env.home, ".gitconfig"), "w") as f:
                f.write("[user]\n\tname = x\n[core]\n\texcludesFile = %s\n" % target)
        elif how in (2, 3):
            with open(os.path.join(gd, "config"), "w") as f:
                f.write("[core]\n\texcludesFile = %s\n" % target)
            if how == 3:
                with open(os.path.join(env.home, ".gitconfig"), "w") as f:
                    f.write("[user]\n\tname = x\n\temail = x@example.org\n")
    argv = ["--files", "--no-config", "-j1", "--null"] + case["flags"]
    if case["rules"].get("explicit"):
        ef = os.path.join(env.tmp, "explicit.ign")
        if case.get("explicit_at"):
            ef = os.path.join(T, case["explicit_at"], "zz-rules.ign")
            case["tree"][case["explicit_at"] + "/zz-rules.ign"] = "f"
        with open(ef, "w") as f:
            f.write("\n".join(case["rules"]["explicit"]) + "\n")
        if case.get("explicit_at") and rng.chance(2, 3):
            # named relative to the current directory, as one would type it
            ef = os.path.relpath(ef, os.path.join(T, *case.get("cwd_comps", [])))
        argv += ["--ignore-file", ef]
    for g in case["globs"]:
        argv += ["-g", g]
    if case["type_sel"] or case["type_neg"]:
        argv += ["--type-add", "foo:*.foo", "-tfoo" if case["type_sel"] else "-Tfoo"]
    if case["max_depth"] is not None:
        argv += ["--max-depth", str(case["max_depth"])]
    form = case["form"]
    subdirs = sorted(p for p, k in case["tree"].items()
                     if k == "d" and p.startswith("w/") and p.count("/") == 1 and not p.endswith(".git"))
    if form == 0:
        cwd, roots, roots_rel = os.path.join(T, "w"), [], ["w"]
    elif form == 1:
        cwd, roots, roots_rel = T, ["w"], ["w"]
    elif form == 2:
        cwd, roots, roots_rel = T, [os.path.join(T, "w")], ["w"]
    elif form == 3 and len(subdirs) >= 2:
        cwd = os.path.join(T, "w")
        roots = [s.split("/", 1)[1] for s in subdirs[:2]]
        roots_rel = subdirs[:2]
    else:
        # the tree plus an explicitly named file that the rules may filter
        cwd = os.path.join(T, "w")
        files = sorted(p for p, k in case["tree"].items() if k == "f" and p.startswith("w/") and p.count("/") == 2 and "/.git/" not in p)
        if files and subdirs:
            f = rng.pick(files)
            other = [s for s in subdirs if not f.startswith(s + "/")]
            if other:
                roots = [f.split("/", 1)[1], other[0].split("/", 1)[1]]
                roots_rel = [f, other[0]]
            else:
                roots, roots_rel = [f.split("/", 1)[1]], [f]
        else:
            roots, roots_rel = ["."], ["w"]
    case["roots_rel"] = roots_rel
    if case["git_at"] is not None and not Model(case).parents_enabled() and \
            any(len(r.split("/")) > len(case["git_at"]) for r in roots_rel):
        # whether a .git above the search root still makes this "a git
        # repository" under --no-ignore-parent is not documented
        env.count("skipped_undocumented_no_ignore_parent_with_git_above_root")
        return
    # -g / explicit / global rules are relative to cwd; with the restricted
    # shapes (no anchors there) that does not matter
    r = common.run_rg(argv + roots, cwd, env.home)
    if r is None:
        env.inconclusive("watchdog")
        return
    env.count("rg_runs")
    got = set()
    for x in r[1].split(b"\0"):
        if not x:
            continue
        p = os.path.normpath(os.path.join(cwd, x.decode("utf-8", "replace")))
        got.add(os.path.relpath(p, T))
    stats = {}
    want = Model(case).listing(stats)
    for k, v in stats.items():
        env.count(k, v)
    for f in case["flags"]:
        env.count("flag:" + f)
    allfiles = sum(1 for p, k in case["tree"].items() if k == "f" and p.startswith("w/"))
    if want and len(want) < allfiles:
        env.nontrivial(json.dumps([case["tree"], case["rules"], case["flags"], case["globs"], roots_rel,
                                   case["type_sel"], case["type_neg"], case["max_depth"], case["git_at"]], sort_keys=True))
    if got != want:
        only_rg = sorted(got - want)
        only_model = sorted(want - got)
        wit = (only_rg or only_model)[0]
        kind = "rg-lists-filtered" if only_rg else "rg-skips-listed"
        what = []
        if wit.split("/")[-1].startswith("."):
            what.append("hidden")
        if case["globs"]:
            what.append("glob")
        if case["type_sel"] or case["type_neg"]:
            what.append("type")
        what += sorted(s for s in case["rules"] if case["rules"][s])
        env.viol("C05:%s:%s" % (kind, "+".join(what) or "none"),
                 "rg %s (cwd %s): only rg %s, only model %s" % (" ".join(argv[4:] + roots), os.path.relpath(cwd, T), only_rg[:4], only_model[:4]),
                 {"kind": "cli", "case": case, "argv": argv + roots, "cwd": os.path.relpath(cwd, T),
                  "only_rg": only_rg, "only_model": only_model, "stderr": esc(r[2][:400])})
    env.sample({"argv": ["rg"] + argv[4:] + roots, "cwd": os.path.relpath(cwd, T), "rules": case["rules"],
                "git_at": case["git_at"], "listed": sorted(want)[:8], "files_under_root": allfiles})


def check(tier, seed, t0):
    common.build_rg()
    total = 6000 if tier == "quick" else 250000
    rep = common.merge_reports([("cli", common.run_cli_cases(None, cli_case, seed, "c05", total, 375 if tier == "quick" else 800))])
    return common.finalize("C05", tier, seed, "exploration", RULE, rep, t0, ASSUME, floor_eval=300, floor_distinct=100)


def replay(path):
    with open(path) as f:
        body = json.load(f)
    print(json.dumps(body.get("replay", body), indent=1)[:8000])
    return 0
