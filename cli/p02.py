"""C02 — results do not depend on how the input bytes reach the searcher.

Leg `lib`: rgmon c02 (event logs of every strategy vs search_slice).
Leg `cli`: `rg --mmap` vs `rg --no-mmap` vs `cat f | rg` byte-identical stdout.
Leg `memcheck` (thorough): valgrind memcheck on `rg --mmap` / `--no-mmap` over
edge-size files (empty, 1 byte, page multiples).
"""

import json
import os
import re
import subprocess

import common
from common import esc, unesc

RULE = ("cases = (input of 0-400 lines whose match mask is chosen directly as gap patterns "
        "around the context sizes and realised with a trivial pattern, searcher configuration over "
        "A,B in 0..6, passthru, invert, line numbers, stop_on_nonmatch, LF/CRLF/NUL); each case is "
        "searched through search_slice (reference) and through >= 9 other legs: scripted readers "
        "(1-byte reads, 2-7 byte reads, one line per read, line+1) with roll buffer capacities "
        "1..4096 via the verif_buffer_capacity hook, default capacity, the minimal heap_limit found "
        "by bisection, search_path with and without mmap, and multi-line mode requested with a "
        "-U style matcher; all event logs must be equal field by field (multi-line legs after "
        "flattening blocks into lines). Non-trivial = some but not all lines match; distinct by "
        "hash of (pattern, configuration, input).")

ASSUME = [
    "binary detection is off (C14 covers it); SinkMatch::buffer is not compared",
    "--stop-on-nonmatch and multi-line mode are documented as mutually exclusive, so that pair is not generated",
    "the roll buffer capacity is set through the verif-hooks feature; growth stays eager",
]


def cli_case(case, env):
    rep = env.rep
    data = unesc(case["input"])
    path = env.write("f", data)
    base = ["-a", "--no-heading", "--color", "never", "--no-config", "-b"] + case["args"] + ["-e", case["pattern"]]
    outs = {}
    for name, extra, stdin in (("mmap", ["--mmap", path], None),
                               ("no-mmap", ["--no-mmap", path], None),
                               ("stdin", ["-"], data)):
        rep["evaluations"] += 1
        r = common.run_rg(base + extra, env.tmp, env.home, stdin=stdin)
        if r is None:
            env.inconclusive("watchdog")
            return
        outs[name] = r
        env.count("rg_runs")
    ref = outs["mmap"]
    if 0 < sum(1 for e in case["model"] if e["k"] == "M") < case["nlines"]:
        env.nontrivial((case["pattern"], tuple(case["args"]), case["input"]))
    for name in ("no-mmap", "stdin"):
        o = outs[name]
        if o[0] != ref[0] or o[1] != ref[1]:
            env.viol("C02:cli:%s-differs-from-mmap" % name,
                     "rg %s: --mmap and %s disagree (status %d vs %d)" % (" ".join(base[6:]), name, ref[0], o[0]),
                     {"kind": "cli", "argv": base, "input": case["input"],
                      "mmap": [ref[0], esc(ref[1][:3000])], name: [o[0], esc(o[1][:3000])]})
    env.sample({"argv": ["rg"] + base + ["{--mmap f | --no-mmap f | - < f}"], "input": case["input"][:100]})


def memcheck_leg(seed):
    """valgrind memcheck over rg --mmap / --no-mmap on edge-size files."""
    rep = common.empty_report()
    tmp = os.path.join(common.scratch_root(), "memcheck")
    os.makedirs(tmp, exist_ok=True)
    sizes = [0, 1, 2, 4095, 4096, 4097, 8192, 65535, 65536, 65537]
    for i, size in enumerate(sizes):
        body = (b"m line %d\nxyz\n" % i) * (size // 12 + 1)
        body = body[:size]
        path = os.path.join(tmp, "f%d" % size)
        with open(path, "wb") as f:
            f.write(body)
        for flag in ("--mmap", "--no-mmap"):
            rep["evaluations"] += 1
            log = os.path.join(tmp, "vg.log")
            cmd = ["valgrind", "--tool=memcheck", "--error-exitcode=99", "--log-file=" + log,
                   "-q", common.RG, "-a", "-n", "-C1", flag, "--no-config", "m", path]
            try:
                p = subprocess.run(cmd, stdout=subprocess.PIPE, stderr=subprocess.PIPE, timeout=600,
                                   env=common.rg_env(tmp))
            except subprocess.TimeoutExpired:
                rep["inconclusive"] += 1
                continue
            rep["counters"]["memcheck_runs"] = rep["counters"].get("memcheck_runs", 0) + 1
            text = open(log).read() if os.path.exists(log) else ""
            if p.returncode == 99 or "Invalid" in text or "uninitialised" in text:
                in_repo = "/repo/crates" in text or "grep_" in text or "ignore::" in text
                if in_repo:
                    rep["violation_counts"]["C02:memcheck:report-in-ripgrep-code"] = 1
                    rep["violations"].append({"signature": "C02:memcheck:report-in-ripgrep-code",
                                              "what": "valgrind memcheck report with a frame in ripgrep code (size %d, %s)" % (size, flag),
                                              "replay": {"cmd": cmd, "log": text[:4000]}})
                else:
                    rep["inconclusive"] += 1
                    rep["notes"].append("memcheck report entirely in third-party code (size %d %s): %s" % (size, flag, text[:300]))
    rep["distinct_nontrivial"] = len(sizes)
    rep["samples"].append({"memcheck": "rg -a -n -C1 --mmap|--no-mmap m <file of size s>", "sizes": sizes})
    return rep


def check(tier, seed, t0):
    common.build_harness()
    common.build_rg()
    total = 600 if tier == "quick" else 15000
    parts = [("lib", common.run_rgmon("c02", tier, seed)),
             ("cli", common.run_cli_cases("c03", cli_case, seed, "c02cli", total, 38 if tier == "quick" else 200))]
    if tier == "thorough":
        import sanitize
        parts.append(("memcheck", memcheck_leg(seed)))
        parts.append(("miri", sanitize.miri_leg("C02", 2)(tier, seed)))
    rep = common.merge_reports(parts)
    return common.finalize("C02", tier, seed, "exploration", RULE, rep, t0, ASSUME,
                           floor_eval=500, floor_distinct=200)


def replay(path):
    with open(path) as f:
        body = json.load(f)
    rp = body.get("replay", body)
    if rp.get("kind") == "cli":
        print(json.dumps(rp, indent=1)[:4000])
        return 0
    common.build_harness()
    return subprocess.run([common.RGMON, "replay", "c02", path]).returncode
