"""Sanitizer / interpreter legs (thorough tiers): Miri over the harness,
ThreadSanitizer over the walker stress and rg -jN, AddressSanitizer over the
fault workloads. A leg that cannot run (tool missing, build failure, watchdog)
reports itself as inconclusive, never as a verdict. A report counts as a
violation of the property whose workload was running only when the
de-duplicated report has a frame under /repo/crates; reports entirely inside
third-party crates are logged as inconclusive notes."""

import json
import os
import re
import subprocess
import tempfile
import time

import common

HARNESS = os.path.join(common.VERIF, "harness")
MIRI_TARGET = os.path.join(common.TARGET, "miri")
TSAN_TARGET = os.path.join(common.TARGET, "harness-tsan")


_RUNTIME_PATHS = ("/rustc/", "/lib/rustlib/src/rust/library/")


def _tsan_access_stacks(block):
    """The stacks of the racing accesses of one ThreadSanitizer report (not the
    thread-creation, heap-location or mutex stacks that follow them)."""
    out, cur = [], None
    for ln in block.splitlines():
        if re.match(r"^  \S", ln):
            if re.match(r"^  (Previous )?(atomic )?(read|write) of size", ln, re.I):
                cur = []
                out.append(cur)
            else:
                cur = None
        elif cur is not None and re.match(r"^    #\d+ ", ln):
            cur.append(ln.strip())
    return out


def _innermost_user_frame(stack):
    """First frame that is neither the sanitizer runtime nor the standard
    library: the code that performed the access."""
    for fr in stack:
        m = re.match(r"#\d+ (.*?) (/\S+?):(\d+)(?::\d+)? \(", fr)
        if m and not any(r in m.group(2) for r in _RUNTIME_PATHS):
            return m.group(1), m.group(2), m.group(3)
    return None


def _classify_tsan_race(prop, text, rep, what):
    """A data-race report is ripgrep's if one of the two racing accesses was
    performed by ripgrep code.  ripgrep frames further out (the closure that
    spawned the thread, the caller of a third-party queue) do not make it so.
    Returns True if the report was dealt with here."""
    stacks = _tsan_access_stacks(text)
    if "ThreadSanitizer: data race" not in text or not stacks:
        return False
    inner = [_innermost_user_frame(s) for s in stacks]
    if any(f and f[1].startswith("/repo/crates/") for f in inner):
        return False            # the general rule below names the ripgrep frame
    if all(f and re.search(r"/crossbeam-(epoch|deque)-[^/]+/", f[1]) for f in inner):
        # crossbeam-epoch publishes and reclaims through atomic::fence, which
        # ThreadSanitizer does not model (crossbeam's own CI suppresses
        # race:crossbeam_epoch and race:crossbeam_deque*steal for that reason)
        rep["counters"]["tsan_reports_inside_crossbeam_fence_synchronisation"] = \
            rep["counters"].get("tsan_reports_inside_crossbeam_fence_synchronisation", 0) + 1
        return True
    rep["inconclusive"] += 1
    rep["notes"].append("tsan: both racing accesses are in third-party code (inconclusive): %s"
                        % " / ".join("%s %s:%s" % f if f else "?" for f in inner)[:400])
    return True


def _classify(prop, tool, text, rep, what):
    """text: sanitizer/interpreter report"""
    if tool == "tsan":
        if _classify_tsan_race(prop, text, rep, what):
            return
        stacks = _tsan_access_stacks(text)
        if stacks:
            text_for_frames = "\n".join("\n".join(s) for s in stacks)
        else:
            text_for_frames = text
    else:
        text_for_frames = text
    frames = re.findall(r"(/repo/crates/[^\s:]+:\d+)", text_for_frames)
    first = frames[0] if frames else None
    kind = "report"
    m = re.search(r"error: (Undefined Behavior|Data race[^\n]*|[^\n]{0,80})", text)
    if m:
        kind = m.group(1)[:60]
    if "unsupported operation" in text:
        rep["inconclusive"] += 1
        rep["notes"].append("%s: unsupported operation (inconclusive): %s" % (tool, text[text.find("unsupported"):][:200]))
        return
    if first:
        sig = "%s:%s:%s" % (prop, tool, re.sub(r":\d+$", "", first).replace("/repo/crates/", ""))
        rep["violation_counts"][sig] = rep["violation_counts"].get(sig, 0) + 1
        if rep["violation_counts"][sig] <= 2:
            rep["violations"].append({"signature": sig, "what": "%s %s with a frame in ripgrep code (%s): %s" % (tool, kind, first, what),
                                      "replay": {"tool": tool, "what": what, "report": text[:9000]}})
    else:
        rep["inconclusive"] += 1
        rep["notes"].append("%s report entirely in third-party code (inconclusive): %s" % (tool, text[-300:].replace("\n", " | ")))


def miri_shards(prop, sub, seed, shards, cases, flags, timeout=1500):
    """run `rgmon <sub> --cases N` under Miri in `shards` processes"""
    rep = common.empty_report()
    env = dict(common.CARGO_ENV, CARGO_TARGET_DIR=MIRI_TARGET, MIRIFLAGS=flags,
               RGMON_TMP=common.scratch_root())
    # build once (serialised), then run the shards in parallel
    b = subprocess.run(["cargo", "+nightly", "miri", "run", "--offline", "--", "nothing"], cwd=HARNESS, env=env,
                       stdout=subprocess.PIPE, stderr=subprocess.PIPE, text=True)
    if "Finished" not in b.stderr and b.returncode not in (0, 2):
        rep["inconclusive"] += 1
        rep["notes"].append("miri build failed: " + b.stderr[-400:])
        return rep
    procs = []
    for i in range(shards):
        out = os.path.join(common.scratch_root(), "miri-%s-%d.json" % (sub, i))
        if sub in ("c07-miri",):
            cmd = ["cargo", "+nightly", "miri", "run", "--offline", "--", sub, "--seed", str(seed * 1000 + i), "--out", out]
        else:
            cmd = ["cargo", "+nightly", "miri", "run", "--offline", "--", sub, "--tier", "quick", "--seed", str(seed * 1000 + i),
                   "--jobs", "1", "--cases", str(cases), "--out", out]
        procs.append((subprocess.Popen(cmd, cwd=HARNESS, env=env, stdout=subprocess.PIPE, stderr=subprocess.PIPE, text=True), out, i))
    t0 = time.time()
    for p, out, i in procs:
        try:
            so, se = p.communicate(timeout=max(10, timeout - (time.time() - t0)))
        except subprocess.TimeoutExpired:
            p.kill()
            p.communicate()
            rep["inconclusive"] += 1
            rep["notes"].append("miri shard %d: watchdog (inconclusive)" % i)
            continue
        rep["counters"]["miri_processes"] = rep["counters"].get("miri_processes", 0) + 1
        if p.returncode != 0:
            _classify(prop, "miri", se, rep, "%s shard %d" % (sub, i))
            continue
        try:
            with open(out) as f:
                r = json.load(f)
            os.unlink(out)
        except Exception:
            rep["inconclusive"] += 1
            rep["notes"].append("miri shard %d left no report" % i)
            continue
        rep["evaluations"] += r.get("evaluations", 0)
        rep["distinct_nontrivial"] += r.get("distinct_nontrivial", 0)
        for k, v in r.get("counters", {}).items():
            rep["counters"][k] = rep["counters"].get(k, 0) + v
        rep["violations"] += r.get("violations", [])
        for k, v in r.get("violation_counts", {}).items():
            rep["violation_counts"][k] = rep["violation_counts"].get(k, 0) + v
        if r.get("samples") and len(rep["samples"]) < 1:
            rep["samples"].append({"under_miri": r["samples"][0]})
    return rep


def miri_leg(prop, cases, shards=16, flags="-Zmiri-disable-isolation"):
    def leg(tier, seed):
        return miri_shards(prop, prop.lower(), seed, shards, cases, flags)
    return leg


def c07_miri_leg(tier, seed):
    flags = ("-Zmiri-disable-isolation -Zmiri-tree-borrows -Zmiri-permissive-provenance -Zmiri-ignore-leaks "
             "-Zmiri-many-seeds=0..4")
    return miri_shards("C07", "c07-miri", seed, 16, 0, flags)


def build_tsan_harness():
    with common._Lock(".lock-harness-tsan"):
        env = dict(common.CARGO_ENV, CARGO_TARGET_DIR=TSAN_TARGET, RUSTFLAGS="-Zsanitizer=thread")
        common._run_build(["cargo", "+nightly", "build", "--release", "--offline", "-Zbuild-std",
                           "--target", "x86_64-unknown-linux-gnu"], HARNESS, env, "rgmon (tsan)")
    return os.path.join(TSAN_TARGET, "x86_64-unknown-linux-gnu", "release", "rgmon")


def c07_tsan_leg(tier, seed):
    rep = common.empty_report()
    try:
        exe = build_tsan_harness()
    except common.Broken as e:
        rep["inconclusive"] += 1
        rep["notes"].append("tsan build failed: %s" % e)
        return rep
    procs = []
    for i in range(8):
        out = os.path.join(common.scratch_root(), "tsan-%d.json" % i)
        log = os.path.join(common.scratch_root(), "tsan-%d.log" % i)
        env = dict(os.environ, RGMON_TMP=common.scratch_root(),
                   TSAN_OPTIONS="halt_on_error=0 exitcode=66 log_path=%s" % log)
        procs.append((subprocess.Popen([exe, "c07-stress", "--seed", str(seed * 100 + i), "--runs", "25", "--out", out],
                                       env=env, stdout=subprocess.PIPE, stderr=subprocess.PIPE, text=True), out, log, i))
    for p, out, log, i in procs:
        try:
            p.communicate(timeout=1800)
        except subprocess.TimeoutExpired:
            p.kill()
            rep["inconclusive"] += 1
            rep["notes"].append("tsan shard %d: watchdog" % i)
            continue
        rep["counters"]["tsan_processes"] = rep["counters"].get("tsan_processes", 0) + 1
        import glob
        reports = ""
        for lf in glob.glob(log + "*"):
            reports += open(lf, errors="replace").read()
            os.unlink(lf)
        blocks = [b for b in reports.split("==================") if "WARNING: ThreadSanitizer" in b]
        rep["counters"]["tsan_report_blocks"] = rep["counters"].get("tsan_report_blocks", 0) + len(blocks)
        seen = set()
        for b in blocks:
            key = re.sub(r"0x[0-9a-f]+|:\d+", "", "".join(re.findall(r"#0 [^\n]*", b)))
            if key in seen:
                continue
            seen.add(key)
            _classify("C07", "tsan", b, rep, "walker stress shard %d" % i)
        try:
            with open(out) as f:
                r = json.load(f)
            os.unlink(out)
            rep["evaluations"] += r.get("evaluations", 0)
            for k, v in r.get("counters", {}).items():
                rep["counters"]["tsan_" + k] = rep["counters"].get("tsan_" + k, 0) + v
            rep["violations"] += r.get("violations", [])
            for k, v in r.get("violation_counts", {}).items():
                rep["violation_counts"][k] = rep["violation_counts"].get(k, 0) + v
        except Exception:
            rep["inconclusive"] += 1
    return rep


def rg_sanitizer_leg(prop, kind, handler, clikind, total, per, extra=None):
    """Re-run a property's CLI workload with an ASan / TSan build of rg and
    collect the sanitizer reports that appear on rg's stderr."""
    def leg(tier, seed):
        rep = common.empty_report()
        try:
            exe = common.build_rg_sanitizer(kind)
        except common.Broken as e:
            rep["inconclusive"] += 1
            rep["notes"].append("%s build of rg failed: %s" % (kind, e))
            return rep
        san_dir = os.path.join(common.scratch_root(), "san-%s-%s" % (prop, kind))
        common.use_rg(exe, san_dir)
        try:
            rep = common.run_cli_cases(clikind, handler, seed, "%s-%s" % (prop, kind), total, per, extra=extra)
        finally:
            common.use_rg(None, None)
        n = 0
        seen = set()
        for name in sorted(os.listdir(san_dir)):
            text = open(os.path.join(san_dir, name), errors="replace").read()
            n += 1
            argv = text.split("\n", 1)[0]
            blocks = [b for b in text.split("==================") if "WARNING: ThreadSanitizer" in b] or [text]
            for b in blocks:
                key = re.sub(r"0x[0-9a-f]+|:\d+|\bT\d+\b", "", "".join(re.findall(r"#[0-3] [^\n]*", b)))[:400]
                if key in seen:
                    continue
                seen.add(key)
                _classify(prop, kind, b, rep, "rg (%s) under the %s workload, %s" % (kind, prop, argv[:300]))
        rep["counters"]["%s_reports_seen" % kind] = n
        rep["counters"]["%s_distinct_reports" % kind] = len(seen)
        return rep
    return leg
