"""Sanitizer / interpreter legs (thorough tiers). Filled in incrementally;
a leg that cannot run reports itself as inconclusive, never as a verdict."""

import common


def _todo(name):
    rep = common.empty_report()
    rep["notes"].append("%s leg not built yet" % name)
    return rep


def c07_tsan_leg(tier, seed):
    return _todo("tsan")


def c07_miri_leg(tier, seed):
    return _todo("miri")
