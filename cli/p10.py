"""C10 — all reporting modes agree with each other (pure metamorphic
relations between rg invocations, no model)."""

import json
import os
import re
import subprocess

import common
from common import esc

RULE = ("cases = generated trees of 1-12 text files (no NUL bytes; empty files, files with and without a final "
        "newline, blank lines, CRLF files) searched with a pattern from a pool that includes empty-matching "
        "patterns, anchors and word boundaries ('^', '$', '^$', '\\b', 'x*', '\\w*', alternations, classes) and "
        "flag sets over -i -w -x -v -U -m N --crlf; the same search is run as default, --count, --count-matches, "
        "--only-matching, --files-with-matches, --files-without-match, --quiet, --json, --stats and --files. "
        "Relations per file: count = matching-line records = JSON match messages (non -U); count-matches = "
        "only-matching records = sum of JSON submatches; every JSON match has >= 1 submatch unless -v; -l = files "
        "with non-zero count; --files-without-match = searched files minus those; -q status = default status; "
        "--stats totals = sums over files; under -U count = count-matches. Non-trivial = at least one file with "
        "a match and the modes produce at least two different non-zero numbers or files; distinct by (tree, "
        "pattern, flags).")

ASSUME = [
    "files contain no NUL bytes (the summary printer documents a mode-dependent result on binary files)",
    "-o is not compared under -v (inverted lines have no matches to print) nor under -U (a match spanning lines is printed as one record per line)",
    "under -U, --count may equal --count-matches (documented) or the number of printed matching lines (what ripgrep does when the pattern cannot match a line terminator); anything else is a violation",
    "elapsed times in --stats / JSON are ignored",
]

PATTERNS = ["a", "^", "$", "^$", "\\b", "x*", "\\w*", "a|b", "[a-c]+", "\\w+", "foo", "(?i)FOO", "o", "\\s", "a.*b", ".",
            "\\bfoo\\b", "o$", "^f", "(a)|(b)", "[^a]$", "\\Bo", "a?", "(?:ab)*", "\\s*$", "b\\b", "\\d+", "z"]
WORDS = ["foo", "bar", "ab", "a b", "", "x", "foo bar", "abc", "o", "Foo", "aaa", "b", " ", "xx", "a-b", "1 22", "zz top"]


def gen_file(rng):
    n = rng.pick([0, 1, 2, 3, 5, 8, 20, 60])
    crlf = rng.chance(1, 6)
    lines = [rng.pick(WORDS) for _ in range(n)]
    nl = "\r\n" if crlf else "\n"
    s = nl.join(lines)
    if n and not rng.chance(1, 3):
        s += nl
    return s.encode()


def per_file(out, sep=b"\0"):
    """'path\\0rest' records -> {path: [rest...]}"""
    d = {}
    for ln in out.split(b"\n"):
        if ln.endswith(b"\r"):
            ln = ln[:-1]          # --crlf terminates rg's own lines with CRLF
        if not ln or sep not in ln:
            continue
        p, rest = ln.split(sep, 1)
        d.setdefault(p, []).append(rest)
    return d


def cli_case(case, env):
    rep = env.rep
    rng = common.Rng(case["seed"])
    root = os.path.join(env.tmp, "t")
    os.makedirs(root)
    nfiles = rng.range(1, 12)
    for i in range(nfiles):
        with open(os.path.join(root, "f%d.txt" % i), "wb") as f:
            f.write(gen_file(rng))
    pat = rng.pick(PATTERNS)
    flags = []
    for fl, den in (("-i", 5), ("-w", 7), ("-x", 9), ("-v", 6), ("-U", 5), ("--crlf", 6)):
        if rng.chance(1, den):
            flags.append(fl)
    if rng.chance(1, 5):
        flags += ["-m", str(rng.range(1, 3))]
    if "-w" in flags and "-x" in flags:
        flags.remove("-x")
    inverted = "-v" in flags
    multiline = "-U" in flags
    base = ["--no-config", "--color", "never", "-j1", "--sort", "path"] + flags

    def run(extra, use_pattern=True):
        rep["evaluations"] += 1
        r = common.run_rg(base + extra + (["-e", pat] if use_pattern else []) + ["t"], env.tmp, env.home)
        if r is None:
            env.inconclusive("watchdog")
        else:
            env.count("rg_runs")
        return r

    default = run(["-n", "--no-heading", "-H", "--null"])
    if default is None:
        return
    if default[0] == 2:
        env.count("pattern_flag_combinations_rejected")
        return
    rp = {"kind": "cli", "seed": case["seed"], "pattern": pat, "flags": flags}
    count = run(["-c", "-H", "--null"])
    cmatches = run(["--count-matches", "-H", "--null"])
    only = None if inverted else run(["-o", "-n", "--no-heading", "-H", "--null"])
    lfiles = run(["-l"])
    lwithout = run(["--files-without-match"])
    quiet = run(["-q"])
    js = run(["--json"])
    stats = run(["--stats", "-c", "-H", "--null"])
    files = run(["--files"], use_pattern=False)
    if None in (count, cmatches, lfiles, lwithout, quiet, js, stats, files) or (only is None and not inverted):
        return
    d_default = {p: [r for r in v if re.match(rb"^\d+:", r)] for p, v in per_file(default[1]).items()}
    n_default = {p: len(v) for p, v in d_default.items() if v}
    n_count = {p: int(v[0]) for p, v in per_file(count[1]).items()}
    n_cm = {p: int(v[0]) for p, v in per_file(cmatches[1]).items()}
    n_only = None if only is None else {p: len(v) for p, v in per_file(only[1]).items()}
    def pathset(out):
        return set(x[:-1] if x.endswith(b"\r") else x for x in out.split(b"\n") if x)
    set_l = pathset(lfiles[1])
    set_wo = pathset(lwithout[1])
    set_files = pathset(files[1])
    j_match = {}
    j_sub = {}
    j_empty = 0
    for ln in js[1].split(b"\n"):
        if not ln:
            continue
        m = json.loads(ln)
        if m["type"] == "match":
            p = m["data"]["path"].get("text", "").encode()
            j_match[p] = j_match.get(p, 0) + 1
            ns = len(m["data"]["submatches"])
            j_sub[p] = j_sub.get(p, 0) + ns
            if ns == 0:
                j_empty += 1
    paths = sorted(set_files)
    if n_count and len(set(n_count.values()) | set(n_cm.values())) > 1:
        env.nontrivial((case["seed"], pat, tuple(flags)))

    has_max = "-m" in flags
    max_n = int(flags[flags.index("-m") + 1]) if has_max else None

    def known_shape():
        # the recorded finding has a direction: the summary printer (-c,
        # --count-matches, --stats) stops as soon as the matches it has
        # counted reach N (a block of adjacent matching lines is counted as a
        # whole), the standard and JSON printers after N such blocks: per
        # file the summary number is never above what JSON reports, and where
        # the two differ the summary has reached the limit
        return all(j_sub.get(p, 0) >= n_cm.get(p, 0) and
                   (j_sub.get(p, 0) == n_cm.get(p, 0) or n_cm.get(p, 0) >= max_n) for p in paths)

    def bad(rel, what):
        if multiline and has_max and rel in ("count-matches-vs-json-submatches", "multiline-count",
                                             "count-vs-json-matches", "stats-matches") and known_shape():
            # known finding: what -m N limits under -U differs per mode
            env.viol("C10:multiline-max-count-modes-disagree",
                     "pattern %r flags %s: %s" % (pat, " ".join(flags), what), rp)
            return
        env.viol("C10:%s%s%s" % (rel, ":inverted" if inverted else "", ":multiline" if multiline else ""),
                 "pattern %r flags %s: %s" % (pat, " ".join(flags), what), rp)

    for p in paths:
        c = n_count.get(p, 0)
        env.count("file_comparisons")
        if not multiline:
            if c != n_default.get(p, 0):
                bad("count-vs-printed-lines", "%s: --count %d, default prints %d matching lines" % (esc(p), c, n_default.get(p, 0)))
            if c != j_match.get(p, 0):
                bad("count-vs-json-matches", "%s: --count %d, JSON has %d match messages" % (esc(p), c, j_match.get(p, 0)))
        else:
            # documented: under -U --count is equivalent to --count-matches;
            # when the pattern cannot match a line terminator ripgrep still
            # searches line by line and counts lines. Either reading is
            # accepted, anything else is not.
            if c != n_cm.get(p, 0) and c != n_default.get(p, 0):
                bad("multiline-count", "%s: -U --count %d, --count-matches %d, printed matching lines %d" % (
                    esc(p), c, n_cm.get(p, 0), n_default.get(p, 0)))
        if not inverted:
            cm = n_cm.get(p, 0)
            # under -U a match that spans lines is printed by -o as one
            # record per line (and nothing for the terminator itself), so the
            # record count is only comparable in line mode
            if n_only is not None and not multiline and cm != n_only.get(p, 0):
                bad("count-matches-vs-only-matching", "%s: --count-matches %d, -o prints %d records" % (esc(p), cm, n_only.get(p, 0)))
            if cm != j_sub.get(p, 0):
                bad("count-matches-vs-json-submatches", "%s: --count-matches %d, JSON submatches %d" % (esc(p), cm, j_sub.get(p, 0)))
        else:
            # -v --count-matches is documented to behave as --count
            if n_cm.get(p, 0) != c:
                bad("inverted-count-matches-vs-count", "%s: -v --count-matches %d, -v --count %d" % (esc(p), n_cm.get(p, 0), c))
        if (c > 0) != (p in set_l):
            bad("files-with-matches", "%s: count %d but %s by -l" % (esc(p), c, "listed" if p in set_l else "not listed"))
        if (c == 0) != (p in set_wo):
            bad("files-without-match", "%s: count %d but %s by --files-without-match" % (esc(p), c, "listed" if p in set_wo else "not listed"))
    if not inverted and j_empty:
        bad("json-match-without-submatch", "%d JSON match messages have no submatch" % j_empty)
    if quiet[0] != default[0]:
        bad("quiet-status", "-q exits %d, default exits %d" % (quiet[0], default[0]))
    if (default[0] == 0) != bool(n_count):
        bad("status-vs-count", "default exits %d but %d files have a non-zero count" % (default[0], len(n_count)))
    # --stats
    st = stats[1].decode("utf-8", "replace")
    def num(label):
        m = re.search(r"(\d+) " + label, st)
        return int(m.group(1)) if m else None
    s_matches, s_lines = num(r"matches\n"), num(r"matched lines")
    s_with, s_searched = num(r"files contained matches"), num(r"files searched")
    if s_lines is not None and not multiline and s_lines != sum(n_count.values()):
        bad("stats-matched-lines", "--stats says %d matched lines, counts sum to %d" % (s_lines, sum(n_count.values())))
    if s_matches is not None and not inverted and s_matches != sum(n_cm.values()):
        bad("stats-matches", "--stats says %d matches, --count-matches sum to %d" % (s_matches, sum(n_cm.values())))
    if s_with is not None and s_with != len(set_l):
        bad("stats-files-with-matches", "--stats says %d files contained matches, -l lists %d" % (s_with, len(set_l)))
    if s_searched is not None and s_searched != len(set_files):
        bad("stats-files-searched", "--stats says %d files searched, --files lists %d" % (s_searched, len(set_files)))
    env.count("stats_blocks_parsed", 1 if s_searched is not None else 0)
    env.sample({"pattern": pat, "flags": flags, "files": len(paths), "counts": {esc(k): v for k, v in list(n_count.items())[:4]},
                "count_matches": {esc(k): v for k, v in list(n_cm.items())[:4]}})


def check(tier, seed, t0):
    common.build_rg()
    total = 2000 if tier == "quick" else 60000
    rep = common.merge_reports([("cli", common.run_cli_cases(None, cli_case, seed, "c10", total, 125 if tier == "quick" else 300))])
    return common.finalize("C10", tier, seed, "exploration", RULE, rep, t0, ASSUME, floor_eval=500, floor_distinct=30)


def replay(path):
    with open(path) as f:
        body = json.load(f)
    print(json.dumps(body.get("replay", body), indent=1)[:6000])
    return 0
