"""C08 — multi-threaded search output is a permutation of the single-threaded
output: per-file blocks byte-identical and contiguous, separators exactly
between blocks, same exit status; with --sort total, reproducible and equal to
the single-threaded output."""

import json
import os
import re
import stat
import subprocess

import common
from common import esc

RULE = ("cases = generated trees of 20-400 files with wildly different sizes (empty ... 2 MB), 0-many matches per "
        "file, a slow preprocessor (--pre, sleeping 0-30 ms) on a random subset of files (--pre-glob) to perturb "
        "timing; each tree is searched with -j1 and with -jN (N from 2,3,4,8,16) in the modes: no heading (--null "
        "delimited paths), heading, context (-C1), --count, --files-with-matches, --json, --files, and --sort path; "
        "outputs are parsed into per-file blocks without guessing and compared as multisets; contiguity of each "
        "file's block, separator placement and exit status are checked; --sort runs must be byte-identical to "
        "-j1 --sort and across repetitions. Non-trivial = at least two files produce output; distinct by (tree "
        "seed, mode, thread count, observed block order).")

ASSUME = [
    "--stats / JSON elapsed times are masked",
    "the evidence reports the number of distinct block orders observed, as proof that interleavings actually varied",
]

WORDS = ["alpha", "beta", "gamma", "needle", "delta", "x", "yy", "needle here", "zzz"]

PRE = """#!/bin/sh
# slow preprocessor used only to perturb timing
n=$(cksum "$1" | cut -c1-2)
case $n in
  1*) sleep 0.03;; 2*) sleep 0.01;; 3*) sleep 0.02;; *) ;;
esac
case "$1" in
  *.bad) cat "$1"; echo "giving up on $1" >&2; exit 1;;
esac
exec cat "$1"
"""


def _e(x):
    return esc(x if isinstance(x, bytes) else str(x).encode("utf-8", "surrogateescape"))


def gen_tree(rng, root):
    n = rng.pick([20, 30, 60, 120, 400])
    for i in range(n):
        d = os.path.join(root, "d%d" % (i % 7)) if i % 3 else root
        os.makedirs(d, exist_ok=True)
        # .slow: preprocessed slowly; .bad: the preprocessor fails after
        # having written the whole file (a fault after output was produced)
        ext = ".slow" if rng.chance(1, 6) else (".bad" if rng.chance(1, 8) else ".txt")
        p = os.path.join(d, "f%03d%s" % (i, ext))
        kind = rng.below(10)
        if kind == 0:
            data = b""
        elif kind < 7:
            lines = [rng.pick(WORDS) + " %d" % j for j in range(rng.range(1, 60))]
            data = ("\n".join(lines) + "\n").encode()
        elif kind < 9:
            lines = [rng.pick(WORDS) + " %d" % j for j in range(rng.range(500, 5000))]
            data = ("\n".join(lines) + "\n").encode()
        else:
            unit = ("filler line without the word\n" * 200 + "needle deep\n").encode()
            data = unit * rng.range(50, 300)
        with open(p, "wb") as f:
            f.write(data)
    # furniture that makes the two walkers (serial for -j1, parallel otherwise)
    # take decisions: links to files and directories, hidden files, nested
    # ignore files
    files = sorted(os.path.relpath(os.path.join(dp, f), root) for dp, _, fs in os.walk(root) for f in fs)
    for k in range(rng.below(8)):
        target = rng.pick(files)
        name = rng.pick(["ln%d.txt" % k, "a_rather_long_link_name_pointing_somewhere_else_%d.txt" % k])
        d = rng.pick(["", "d1", "d2", "d5"])
        os.makedirs(os.path.join(root, d), exist_ok=True)
        try:
            os.symlink(os.path.relpath(os.path.join(root, target), os.path.join(root, d)), os.path.join(root, d, name))
        except OSError:
            pass
    if rng.chance(1, 3):
        try:
            os.symlink("d2", os.path.join(root, "dlink"))
        except OSError:
            pass
    for k in range(rng.below(4)):
        with open(os.path.join(root, rng.pick(["", "d1", "d4"]), ".hid%d.txt" % k), "wb") as f:
            f.write(b"needle hidden %d\nalpha\n" % k)
    for d in rng.sample(["", "d1", "d2", "d3", "d4"], rng.below(3)):
        if os.path.isdir(os.path.join(root, d)):
            rules = [rng.pick(["f00*", "*.slow", "d3/", "!f001*", "f1*.txt", "/d6", "ln*", "!*.bad"]) for _ in range(rng.range(1, 3))]
            # anchored paths: relative to this ignore file, whichever roots are searched
            below = [f[len(d) + 1 if d else 0:] for f in files if (not d or f.startswith(d + "/"))]
            below = [b for b in below if "/" in b]
            for _ in range(rng.below(3)):
                if below:
                    rules.append(rng.pick(["/", "", "!/"]) + rng.pick(below))
            with open(os.path.join(root, d, ".ignore"), "w") as f:
                f.write("\n".join(rules) + "\n")
    return n


def gen_walk_args(rng, root):
    """traversal options and roots: the file set must be the same for every
    thread count whatever they are"""
    args = []
    if rng.chance(1, 3):
        args.append("-L")
    if rng.chance(1, 3):
        args += ["--max-filesize", rng.pick(["40", "1K", "20K"])]
    if rng.chance(1, 5):
        args += ["--max-depth", str(rng.range(1, 2))]
    if rng.chance(1, 4):
        args.append("--hidden")
    if rng.chance(1, 5):
        args.append("--no-ignore")
    if rng.chance(1, 5):
        args += ["-g", rng.pick(["!d1/**", "*.txt", "!f0*", "{d2/**,f1*}"])]
    roots = ["t"]
    if rng.chance(1, 3):
        # several roots, more of them than some of the thread counts
        tops = sorted(os.listdir(root))
        dirs = ["t/" + x for x in tops if os.path.isdir(os.path.join(root, x)) and not os.path.islink(os.path.join(root, x))]
        fls = ["t/" + x for x in tops if os.path.isfile(os.path.join(root, x)) and not x.startswith(".")
               and not x.endswith(".bad")]
        roots = dirs + fls[:rng.pick([0, 2, 14])]
        if not roots:
            roots = ["t"]
    return args, roots


def blocks_null(out):
    """no-heading output with --null: returns (blocks, problems)"""
    blocks = []          # list of (path, [lines])
    problems = []
    seps = 0
    cur = None
    lines = out.split(b"\n")
    if lines and lines[-1] == b"":
        lines.pop()
    prev_sep = True      # a leading separator is a problem
    for i, ln in enumerate(lines):
        if ln == b"--":
            if prev_sep:
                problems.append("separator at start or doubled (line %d)" % i)
            prev_sep = True
            seps += 1
            if cur is not None:
                cur[1].append(ln)
            continue
        prev_sep = False
        if b"\0" not in ln:
            problems.append("line without path delimiter: %r" % ln[:60])
            continue
        path = ln.split(b"\0", 1)[0]
        if cur is None or cur[0] != path:
            # a trailing separator of the previous block belongs between blocks
            if cur is not None and cur[1] and cur[1][-1] == b"--":
                cur[1].pop()
            cur = (path, [])
            blocks.append(cur)
        cur[1].append(ln)
    if prev_sep and lines:
        problems.append("separator at end")
    return blocks, problems, seps


def blocks_heading(out):
    blocks = []
    problems = []
    text = out
    if text.endswith(b"\n"):
        text = text[:-1]
    if not text:
        return blocks, problems
    for b in text.split(b"\n\n"):
        ls = b.split(b"\n")
        if not ls[0] or re.match(rb"^\d+[:-]", ls[0]):
            problems.append("block does not start with a path: %r" % ls[0][:60])
        blocks.append((ls[0], ls[1:]))
    return blocks, problems


def blocks_json(out):
    blocks = []
    problems = []
    cur = None
    summary = 0
    for ln in out.split(b"\n"):
        if not ln:
            continue
        try:
            m = json.loads(ln)
        except Exception:
            problems.append("unparsable json line")
            continue
        t = m.get("type")
        if t == "summary":
            summary += 1
            continue
        d = m.get("data", {})
        path = json.dumps(d.get("path"), sort_keys=True)
        if t == "begin":
            if cur is not None and b".bad" in cur[0].encode():
                # the preprocessor of that file failed: its stream is cut
                # (single-threaded rg has already printed the beginning)
                cur = None
            if cur is not None:
                problems.append("begin inside an open file")
            cur = (path, [])
            blocks.append(cur)
        if cur is None or cur[0] != path:
            problems.append("%s message outside its file's begin/end" % t)
            continue
        if t == "end":
            d = dict(d)
            st = dict(d.get("stats", {}))
            st["elapsed"] = None
            d["stats"] = st
            cur[1].append(json.dumps({"type": t, "data": d}, sort_keys=True))
            cur = None
        else:
            cur[1].append(json.dumps(m, sort_keys=True))
    if cur is not None and b".bad" not in cur[0].encode():
        problems.append("file without end message")
    if summary != 1:
        problems.append("%d summary messages" % summary)
    return blocks, problems


def blocks_lines(out):
    ls = [l for l in out.split(b"\n") if l]
    return [(l, [l]) for l in ls], []


MODES = [
    ("noheading", ["-n", "--no-heading", "--null"], "null"),
    ("context", ["-n", "--no-heading", "--null", "-C1"], "null"),
    ("heading", ["-n", "--heading"], "heading"),
    ("count", ["-c", "--null"], "lines"),
    ("files-with-matches", ["-l"], "lines"),
    ("json", ["--json"], "json"),
    ("files", ["--files"], "lines"),
]


def parse(kind, out):
    if kind == "null":
        b, p, _ = blocks_null(out)
        return b, p
    if kind == "heading":
        return blocks_heading(out)
    if kind == "json":
        return blocks_json(out)
    return blocks_lines(out)


def cli_case(case, env):
    rep = env.rep
    rng = common.Rng(case["seed"])
    root = os.path.join(env.tmp, "t")
    os.makedirs(root)
    nfiles = gen_tree(rng, root)
    pre = os.path.join(env.tmp, "pre.sh")
    with open(pre, "w") as f:
        f.write(PRE)
    os.chmod(pre, 0o755)
    pattern = rng.pick(["needle", "alpha|beta", "x", "nomatchatall", "\\d+$", "gamma \\d"])
    tier = env.extra["tier"]
    modes = MODES if tier == "thorough" else rng.sample(MODES, 4)
    threads = [2, 3, 4, 8, 16] if tier == "thorough" else rng.sample([2, 3, 4, 8, 16], 3)
    reps = 5 if tier == "thorough" else 2
    wargs, roots = gen_walk_args(rng, root)
    base = ["--no-config", "--color", "never", "--pre", pre, "--pre-glob", "*.{slow,bad}"] + wargs
    env.count("cases_with_walk_options" if wargs else "cases_with_default_walk")
    if len(roots) > 1:
        env.count("cases_with_several_roots")

    def good(blocks):
        # results of a file whose preprocessor failed are not comparable
        # (single-threaded rg has streamed them already, multi-threaded rg
        # drops them): only the other files' blocks are compared
        out = []
        for p, ls in blocks:
            pb = p if isinstance(p, bytes) else p.encode()
            if b".bad" in pb.split(b"\0")[0]:
                continue
            out.append((p, ls))
        return out
    for mname, margs, kind in modes:
        pat = [] if mname == "files" else ["-e", pattern]
        ref = common.run_rg(base + margs + ["-j1"] + pat + roots, env.tmp, env.home, timeout=300)
        if ref is None:
            env.inconclusive("watchdog")
            continue
        rblocks, rprob = parse(kind, ref[1])
        if rprob:
            env.viol("C08:%s:single-threaded-output-malformed" % mname, rprob[0],
                     {"kind": "cli", "seed": case["seed"], "mode": mname, "stdout": esc(ref[1][:2000])})
            continue
        want = sorted((p, tuple(ls)) for p, ls in good(rblocks))
        orders = set()
        for n in threads:
            for r in range(reps):
                rep["evaluations"] += 1
                got = common.run_rg(base + margs + ["-j%d" % n] + pat + roots, env.tmp, env.home, timeout=300)
                if got is None:
                    env.inconclusive("watchdog")
                    continue
                env.count("rg_runs")
                gblocks, gprob = parse(kind, got[1])
                rp = {"kind": "cli", "seed": case["seed"], "mode": mname, "threads": n, "pattern": pattern,
                      "argv": base + margs + ["-j%d" % n] + pat + roots}
                if gprob:
                    env.viol("C08:%s:malformed-output" % mname, "-j%d: %s" % (n, gprob[0]),
                             dict(rp, stdout=esc(got[1][:3000])))
                    continue
                paths = [p for p, _ in gblocks]
                if len(set(paths)) != len(paths):
                    dup = [p for p in set(paths) if paths.count(p) > 1][0]
                    env.viol("C08:%s:file-block-split-or-duplicated" % mname,
                             "-j%d: file %s appears in %d separate blocks" % (n, _e(dup), paths.count(dup)), rp)
                    continue
                have = sorted((p, tuple(ls)) for p, ls in good(gblocks))
                if have != want:
                    missing = [p for p, _ in want if p not in set(paths)]
                    extra = [p for p in paths if p not in set(q for q, _ in want)]
                    env.viol("C08:%s:blocks-differ-from-single-threaded" % mname,
                             "-j%d: %d blocks vs %d; missing %s extra %s (or same files with different bytes)" % (
                                 n, len(have), len(want), [_e(x) for x in missing[:3]], [_e(x) for x in extra[:3]]), rp)
                    continue
                if got[0] != ref[0]:
                    env.viol("C08:%s:exit-status" % mname, "-j%d exits %d, -j1 exits %d" % (n, got[0], ref[0]), rp)
                if kind == "null" and mname == "context" and not any(b".bad" in (p if isinstance(p, bytes) else p.encode()) for p, _ in rblocks):
                    _, _, s1 = blocks_null(ref[1])
                    _, _, sn = blocks_null(got[1])
                    if s1 != sn:
                        env.viol("C08:context:separator-count", "-j%d prints %d separators, -j1 %d" % (n, sn, s1), rp)
                orders.add(tuple(paths))
                if len(gblocks) >= 2:
                    env.nontrivial((case["seed"], mname, n, tuple(paths)))
        env.count("distinct_block_orders_observed", len(orders))
        env.count("max_distinct_orders_for_one_tree_and_mode", 0)
        c = rep["counters"]
        c["max_distinct_orders_for_one_tree_and_mode"] = max(c.get("max_distinct_orders_for_one_tree_and_mode", 0), len(orders))
    # --sort path: total, reproducible, equal to single-threaded
    sargs = base + ["-n", "--no-heading", "--sort", "path", "-e", pattern]
    ref = common.run_rg(sargs + ["-j1"] + roots, env.tmp, env.home, timeout=300)
    for i in range(reps + 1):
        rep["evaluations"] += 1
        got = common.run_rg(sargs + ["-j%d" % rng.pick([2, 4, 8, 16])] + roots, env.tmp, env.home, timeout=300)
        if ref is None or got is None:
            env.inconclusive("watchdog")
            continue
        env.count("rg_runs")
        if got[1] != ref[1] or got[0] != ref[0]:
            env.viol("C08:sort:differs-from-single-threaded", "--sort path output differs from -j1 --sort path",
                     {"kind": "cli", "seed": case["seed"], "argv": sargs})
    # line terminators other than LF: the blocks and what stands between them
    # must not depend on the thread count either
    tname = rng.pick(["crlf", "nul", "hyperlink"])
    term = b"\r\n" if tname == "crlf" else (b"\0" if tname == "nul" else b"\n")
    t2 = os.path.join(env.tmp, "t2")
    os.makedirs(t2)
    for i in range(rng.range(4, 12)):
        lines = [(rng.pick(WORDS) + " %d" % j).encode() for j in range(rng.range(1, 30))]
        with open(os.path.join(t2, "g%02d.txt" % i), "wb") as f:
            f.write(term.join(lines) + term)
    if tname == "hyperlink":
        # colours and hyperlinks forced although stdout is a pipe: the bytes of
        # a block must not depend on which writer a thread count selects
        targs = ["--no-config", "--color", "always", "--hyperlink-format", "file://{path}#{line}",
                 rng.pick(["--heading", "--no-heading"]), "-n"] + rng.pick([[], ["-c"], ["-l"]])
    else:
        targs = ["--no-config", "--color", "never", "--heading", "-n"] + (["--crlf"] if tname == "crlf" else ["--null-data", "-a"])
    tref = common.run_rg(targs + ["-j1", "-e", "needle", "t2"], env.tmp, env.home, timeout=120)
    for n in rng.sample([2, 3, 4, 8, 16], 2):
        rep["evaluations"] += 1
        tgot = common.run_rg(targs + ["-j%d" % n, "-e", "needle", "t2"], env.tmp, env.home, timeout=120)
        if tref is None or tgot is None:
            env.inconclusive("watchdog")
            continue
        env.count("rg_runs")
        env.count("terminator_runs_" + tname)
        sep = b"\0" if tname == "nul" else b"\n"
        a = sorted(tref[1].split(sep))
        b = sorted(tgot[1].split(sep))
        if a == b and tref[0] == tgot[0]:
            continue
        # known shape: the line between two files' blocks is written with the
        # search's terminator by -j1 and always as a bare LF otherwise
        if tname == "hyperlink":
            same = False
        elif tname == "crlf":
            norm = sorted(x if x != b"\r" else b"" for x in a)
            same = norm == b
        else:
            same = sorted(tref[1].split(sep)) == sorted(tgot[1].replace(b"\0\n", b"\0\0").split(sep))
        rp2 = {"kind": "cli", "seed": case["seed"], "argv": targs + ["-j%d" % n, "-e", "needle", "t2"],
               "single": esc(tref[1][:1500]), "multi": esc(tgot[1][:1500])}
        if same and tref[0] == tgot[0]:
            env.viol("C08:file-separator-terminator-differs-under-crlf-or-null-data",
                     "--heading with %s: -j1 ends the line between files with the search's terminator, -j%d with LF" % (
                         "--crlf" if tname == "crlf" else "--null-data", n), rp2)
        else:
            env.viol("C08:heading-%s:blocks-differ-from-single-threaded" % tname,
                     "-j%d output is not a permutation of the -j1 records" % n, rp2)
    # multi-line search over a directory in which text files alternate with
    # empty ones: a per-thread searcher goes from one file to the next, and
    # what an empty file "contains" must not depend on which file came before
    t3 = os.path.join(env.tmp, "t3")
    os.makedirs(t3)
    for i in range(rng.range(6, 16)):
        with open(os.path.join(t3, "h%02d.txt" % i), "wb") as f:
            if i % 2 == 0:
                f.write(b"".join(b"%s %d in file %d\n" % (rng.pick(WORDS).encode(), j, i) for j in range(rng.range(1, 20))))
    uargs = ["--no-config", "--color", "never", "--no-heading", "-n", "-U", "-e", "needle \\d+ in file \\d+\\n"]
    uref = common.run_rg(uargs + ["-j1", "t3"], env.tmp, env.home, timeout=120)
    for n in rng.sample([2, 3, 4, 8], 2):
        rep["evaluations"] += 1
        ugot = common.run_rg(uargs + ["-j%d" % n, "t3"], env.tmp, env.home, timeout=120)
        if uref is None or ugot is None:
            env.inconclusive("watchdog")
            continue
        env.count("rg_runs")
        env.count("multiline_empty_file_runs")
        bad = None
        for which, out in (("-j1", uref[1]), ("-j%d" % n, ugot[1])):
            for ln in out.split(b"\n"):
                m = re.match(rb"^t3/h(\d+)\.txt:", ln)
                if m and (int(m.group(1)) % 2 == 1 or (b"in file %d" % int(m.group(1))) not in ln):
                    bad = "%s attributes %s, which that file does not contain" % (which, esc(ln[:80]))
        if bad is None and (sorted(uref[1].split(b"\n")) != sorted(ugot[1].split(b"\n")) or uref[0] != ugot[0]):
            bad = "-j%d output is not a permutation of the -j1 lines" % n
        if bad:
            env.viol("C08:multiline-empty-files:blocks-differ-from-single-threaded", bad,
                     {"kind": "cli", "seed": case["seed"], "argv": uargs + ["-j%d" % n, "t3"],
                      "single": esc(uref[1][:1500]), "multi": esc(ugot[1][:1500])})
    # files named on the command line next to directories that are walked,
    # some of them with NUL bytes: a named file is searched in another binary
    # detection mode than a file found by the walk, each worker switches mode
    # from file to file, and which worker gets which root is up to the schedule
    t4 = os.path.join(env.tmp, "t4")
    os.makedirs(os.path.join(t4, "sub"))
    named = []
    for i in range(rng.range(5, 12)):
        kind = rng.below(4)
        text = b"".join(b"%s %d in file %d\n" % (rng.pick(WORDS).encode(), j, i) for j in range(rng.range(1, 12)))
        if kind == 1:
            text = b"head\0tail\n" + text + b"needle after the NUL in file %d\n" % i
        elif kind == 2:
            text = b"needle before the NUL in file %d\n" % i + text + b"x\0y\nneedle after it\n"
        where = rng.below(3)
        name = ("w%02d.dat" % i) if where == 0 else (("sub/w%02d.dat" % i) if where == 1 else ("n%02d.dat" % i))
        with open(os.path.join(env.tmp if where == 2 else t4, name), "wb") as f:
            f.write(text)
        if where == 2:
            named.append(name)
    broots = ["t4"] + named
    if rng.chance(1, 2):
        rng.shuffle(broots)
    for bmode in (["--no-heading", "-n"], ["-c"], ["-l"], ["--no-heading", "-n", "--no-mmap"]):
        bargs = ["--no-config", "--color", "never"] + bmode + ["-e", "needle"]
        bref = common.run_rg(bargs + ["-j1"] + broots, env.tmp, env.home, timeout=120)
        for n in rng.sample([2, 3, 4, 8], 2):
            rep["evaluations"] += 1
            bgot = common.run_rg(bargs + ["-j%d" % n] + broots, env.tmp, env.home, timeout=120)
            if bref is None or bgot is None:
                env.inconclusive("watchdog")
                continue
            env.count("rg_runs")
            env.count("named_and_walked_binary_file_runs")
            env.nontrivial(("named-and-walked", case["seed"], tuple(bmode), n, bgot[1]))
            if sorted(bref[1].split(b"\n")) != sorted(bgot[1].split(b"\n")) or bref[0] != bgot[0]:
                only1 = sorted(set(bref[1].split(b"\n")) - set(bgot[1].split(b"\n")))
                onlyn = sorted(set(bgot[1].split(b"\n")) - set(bref[1].split(b"\n")))
                env.viol("C08:named-and-walked-binary-files:lines-differ-from-single-threaded",
                         "rg %s -j%d %s: status %d vs %d with -j1; only with -j1: %s; only with -j%d: %s"
                         % (" ".join(bmode), n, " ".join(broots), bgot[0], bref[0],
                            [esc(x[:60]) for x in only1[:3]], n, [esc(x[:60]) for x in onlyn[:3]]),
                         {"kind": "cli", "seed": case["seed"], "argv": bargs + ["-j%d" % n] + broots,
                          "single": esc(bref[1][:1500]), "multi": esc(bgot[1][:1500])})
    env.sample({"files": nfiles, "walk_args": wargs, "roots": len(roots), "pattern": pattern, "modes": [m[0] for m in modes], "threads": threads,
                "repetitions": reps})


def check(tier, seed, t0):
    common.build_rg()
    total = 40 if tier == "quick" else 300
    parts = [("cli", common.run_cli_cases(None, cli_case, seed, "c08", total, 3 if tier == "quick" else 19,
                                          extra={"tier": tier}))]
    if tier == "thorough":
        import sanitize
        parts.append(("tsan", sanitize.rg_sanitizer_leg("C08", "tsan", cli_case, None, 16, 1, extra={"tier": "quick"})(tier, seed)))
    rep = common.merge_reports(parts)
    return common.finalize("C08", tier, seed, "exploration", RULE, rep, t0, ASSUME, floor_eval=200, floor_distinct=50)


def replay(path):
    with open(path) as f:
        body = json.load(f)
    print(json.dumps(body.get("replay", body), indent=1)[:6000])
    return 0
