"""C03 — results follow the grep model (order, uniqueness, context windows,
separators, numbering, byte count).

Leg `lib`: rgmon c03 (event streams of several strategies vs the executable
grep model). Leg `cli`: `rg -a -b -n -A a -B b ...` stdout vs the same model
rendered as text.
"""

import json
import subprocess

import common
from common import esc, unesc

RULE = ("cases as in C02 (match masks generated as gap patterns 0,1,A,B,A+B-1,A+B,A+B+1,... between "
        "matches, matches on first/last line, unterminated last line; A,B in 0..6, invert, passthru, "
        "stop_on_nonmatch, line numbers on/off, LF/CRLF/NUL); each case's event stream from "
        "search_slice, a tiny-buffer reader and one more strategy is compared event by event with the "
        "executable grep model (whose per-line match verdicts come from the C01 oracle), plus pure "
        "log invariants; the CLI leg renders the model as text and compares rg's stdout byte for byte. "
        "Non-trivial = some but not all lines match; distinct by hash of (configuration, input).")

ASSUME = [
    "which lines match is taken from the C01 oracle, so C03 does not re-test matching",
    "a context line that is both within A after one match and within B before the next may be delivered as either kind",
    "after a stop_on_nonmatch cut the final byte count is not constrained (the statement fixes it for complete searches only)",
]


def render(case, events):
    out = bytearray()
    # under --crlf rg terminates what it adds itself (separators, a missing
    # final terminator) with CRLF
    nl = b"\r\n" if case["term"] == "crlf" else b"\n"
    for e in events:
        if e["k"] == "break":
            out += b"--" + nl
            continue
        sep = b":" if e["k"] == "M" else b"-"
        if case["line_number"]:
            out += str(e["line"]).encode() + sep
        out += str(e["off"]).encode() + sep
        b = unesc(e["bytes"])
        out += b
        if not b.endswith(b"\n"):
            out += nl
    return bytes(out)


def cli_case(case, env):
    rep = env.rep
    rep["evaluations"] += 1
    data = unesc(case["input"])
    path = env.write("f", data)
    argv = ["-a", "--no-heading", "--color", "never", "--no-config", "-b"] + case["args"] + ["-e", case["pattern"], path]
    r = common.run_rg(argv, env.tmp, env.home)
    if r is None:
        env.inconclusive("watchdog")
        return
    env.count("rg_runs")
    status, so, se = r
    want = render(case, case["model"])
    nm = sum(1 for e in case["model"] if e["k"] == "M")
    env.count("model_lines", len(case["model"]))
    if 0 < nm < case["nlines"]:
        env.nontrivial((tuple(case["args"]), case["input"]))
    if so != want:
        # locate first differing record for the signature
        a, b = so.split(b"\n"), want.split(b"\n")
        i = 0
        while i < min(len(a), len(b)) and a[i] == b[i]:
            i += 1
        env.viol("C03:cli:stdout-differs-from-model",
                 "rg %s: record %d is %r, model says %r" % (" ".join(case["args"]), i, esc(a[i][:80]) if i < len(a) else None, esc(b[i][:80]) if i < len(b) else None),
                 {"kind": "cli", "argv": argv[:-1] + ["<file>"], "input": case["input"],
                  "stdout": esc(so[:4000]), "model_stdout": esc(want[:4000])})
    want_status = 0 if nm else 1
    if status != want_status:
        env.viol("C03:cli:status", "status %d, expected %d" % (status, want_status),
                 {"kind": "cli", "argv": argv[:-1] + ["<file>"], "input": case["input"], "stderr": esc(se[:500])})
    env.sample({"argv": ["rg"] + argv[:-1] + ["<file>"], "input": case["input"][:100],
                "model_stdout": esc(want[:200])})


def check(tier, seed, t0):
    common.build_harness()
    common.build_rg()
    total = 1500 if tier == "quick" else 40000
    parts = [("lib", common.run_rgmon("c03", tier, seed)),
             ("cli", common.run_cli_cases("c03", cli_case, seed, "c03cli", total, 94 if tier == "quick" else 200))]
    if tier == "thorough":
        import sanitize
        parts.append(("miri", sanitize.miri_leg("C03", 4)(tier, seed)))
    rep = common.merge_reports(parts)
    return common.finalize("C03", tier, seed, "exploration", RULE, rep, t0, ASSUME,
                           floor_eval=1000, floor_distinct=500)


def replay(path):
    with open(path) as f:
        body = json.load(f)
    rp = body.get("replay", body)
    if rp.get("kind") == "cli":
        print(json.dumps(rp, indent=1)[:6000])
        return 0
    common.build_harness()
    return subprocess.run([common.RGMON, "replay", "c03", path]).returncode
