"""C06 — single-threaded and parallel traversal report the same entries,
once each. Decided in-process (rgmon c06)."""

import rustonly

RULE = ("trees = generated directory trees (depth <= 4, fan-out <= 6, occasionally a 6-12 deep chain, a 20-200 wide "
        "directory, an empty directory; files of sizes around the size limits; symlinks to files, to directories, "
        "to ancestors ('..', '../..', '.'), to themselves, dangling; names incl. hidden ones, 'skipme.txt', "
        "'skipdir'; one third with a .ignore file), each walked under 6 (thorough: 12) random option combinations "
        "of max_depth x max_filesize x follow_links x same_file_system x filter_entry x hidden x .ignore x roots "
        "(tree root, two disjoint sub directories, a file plus a directory). Oracles: WalkBuilder::build() vs "
        "build_parallel() at 2 sampled (thorough: all of 1,2,3,4,8,16) thread counts: equal (path, depth) "
        "multisets, no duplicates, loop errors on both sides or neither; without ignore rules also equal to an "
        "independent std::fs recursion applying the same limits, filter and loop rule, and a cycle on the walked "
        "paths implies a loop error. Non-trivial = more than one entry; distinct by (tree, options).")

ASSUME = [
    "error entries are compared only through the loop-error requirement (the walkers word and place I/O errors differently)",
    "roots that are symlinks are compared serial vs parallel only",
    "every tree lives three private directory levels deep so that up-pointing symlinks cannot reach other trees",
]


def check(tier, seed, t0):
    return rustonly.check("C06", tier, seed, t0, "exploration", RULE, ASSUME, 500, 200)


def replay(path):
    return rustonly.replay("C06", path)
