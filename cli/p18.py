"""C18 — preprocessor and decompression output is what gets searched;
failures surface (fault enumeration over exit status x fault point x stderr
volume x early stop).

The generated --pre script reads a per-file configuration and behaves
accordingly; the generator computes the bytes the script writes to stdout, so
the expected results are those of searching exactly these bytes."""

import bz2
import gzip
import json
import lzma
import os
import subprocess

import common
from common import esc

RULE = ("cases = one directory per case with 4-10 files; each file selected by --pre-glob gets a behaviour from the "
        "matrix exit status {0,1,2,127,255,killed by signal} x fault point {before any output, mid-output, after "
        "all output} x stderr volume {0, 100 B, 4 MB} x transform {cat, upper-case, line prefix}; other files are "
        "not selected by --pre-glob and must be searched directly; the run is repeated under rg's early-stop "
        "modes {none, -m1, -q, -l} and -j1/-j4; plus a missing preprocessor command, and -z on gzip/bzip2/xz files "
        "valid and truncated. Oracles: results of a successfully preprocessed file = rg on the bytes the command "
        "wrote, attributed to the original path; unselected files = direct search; command fully consumed and "
        "failing (or missing) => diagnostic naming the file and exit status 2; failing only because rg stopped "
        "reading early, with empty stderr => no error; 4 MB of stderr never blocks (watchdog). Quick tier samples "
        "the matrix, thorough enumerates exit x point x stderr for every early-stop mode. Non-trivial = a run "
        "with at least one failing and one matching file; distinct by (seed, mode, threads).")

ASSUME = [
    "a command that fails after rg stopped reading early AND wrote to stderr is left unconstrained (the code documents that it cannot tell SIGPIPE from a real failure there)",
    "in single-threaded mode results of a failing file may already have been printed when the failure is noticed: lines attributed to failing files are not compared",
    "lz4, zstd and brotli tools are not installed in this sandbox; only gzip, bzip2 and xz are exercised",
    "a watchdog expiry counts as a violation only when /proc shows the child blocked in a pipe write and rg blocked reading; otherwise inconclusive",
]

SCRIPT = r"""#!/bin/sh
# generated preprocessor: behaviour comes from "$1.cfg"
f="$1"
exit_status=0; when=after; stderr_bytes=0; transform=cat; killme=0; cut=0; propagate=0
[ -f "$f.cfg" ] && . "$f.cfg"
emit_err() {
  # (a writer that notices when its stderr is taken away: it dies as a
  # program writing with write(2) would)
  if [ "$stderr_bytes" -gt 0 ]; then head -c "$stderr_bytes" /dev/zero | tr '\0' 'e' >&2 || exit 141; fi
}
out() {
  case "$transform" in
    upper) tr a-z A-Z < "$f" ;;
    prefix) sed 's/^/P:/' "$f" ;;
    banner) echo "needle banner for $(basename "$f")"; cat "$f" ;;
    *) cat "$f" ;;
  esac
}
finish() {
  emit_err
  if [ "$killme" = 1 ]; then kill -9 $$; fi
  exit "$exit_status"
}
case "$when" in
  before) finish ;;
  mid) out | head -c "$cut"; finish ;;
  *) if [ "$propagate" = 1 ]; then
       # a wrapper that hands on its command's status: 141 (no signal) when the
       # reader went away early
       out || { rc=$?; exit $rc; }
     else
       out
     fi
     finish ;;
esac
"""

WORD = b"needle"


def transform(data, t, name=b""):
    if t == "banner":
        return b"needle banner for " + name + b"\n" + data
    if t == "upper":
        return bytes(c - 32 if 97 <= c <= 122 else c for c in data)
    if t == "prefix":
        if not data:
            return data
        lines = data.split(b"\n")
        tail = lines.pop() if not data.endswith(b"\n") else (lines.pop() and None)
        out = b"".join(b"P:" + l + b"\n" for l in lines)
        if tail:
            out += b"P:" + tail
        return out
    return data


def gen_body(rng, big):
    n = rng.range(200, 3000) if big else rng.range(1, 40)
    lines = []
    for i in range(n):
        w = b"needle" if rng.chance(1, 3) else b"filler"
        lines.append(w + b" line %d of some text" % i)
    return b"\n".join(lines) + b"\n"


def pre_case(case, env):
    rep = env.rep
    rng = common.Rng(case["seed"])
    tier = env.extra["tier"]
    d = os.path.join(env.tmp, "t")
    os.makedirs(d)
    script = os.path.join(env.tmp, "pre.sh")
    with open(script, "w") as f:
        f.write(SCRIPT)
    os.chmod(script, 0o755)
    files = []
    nfiles = rng.range(4, 10)
    matrix = [(e, k, w, s) for e, k in ((0, 0), (1, 0), (2, 0), (127, 0), (255, 0), (9, 1))
              for w in ("before", "mid", "after") for s in (0, 100, 4 * 1024 * 1024)]
    picks = rng.sample(matrix, nfiles) if tier == "quick" else None
    for i in range(nfiles):
        selected = not rng.chance(1, 4)
        name = "f%d.%s" % (i, "pp" if selected else "txt")
        body = gen_body(rng, rng.chance(1, 3))
        if rng.chance(1, 8):
            body = b""                      # an empty file is an input like any other
        elif rng.chance(1, 10):
            body = b"needle at the top\n" + gen_body(rng, True) * rng.range(4, 8)   # several pipe buffers
        with open(os.path.join(d, name), "wb") as f:
            f.write(body)
        info = {"name": name, "selected": selected, "body": body}
        if selected:
            if picks is not None:
                e, k, w, s = picks[i]
            else:
                e, k, w, s = matrix[(case["index"] * 10 + i) % len(matrix)]
            t = rng.pick(["cat", "upper", "prefix", "banner"])
            full = transform(body, t, name.encode())
            prop = 1 if (e == 0 and k == 0 and w == "after" and rng.chance(1, 2)) else 0
            cut = len(full) // 2
            with open(os.path.join(d, name + ".cfg"), "w") as f:
                f.write("exit_status=%d\nwhen=%s\nstderr_bytes=%d\ntransform=%s\nkillme=%d\ncut=%d\npropagate=%d\n" % (e, w, s, t, k, cut, prop))
            emitted = b"" if w == "before" else (full[:cut] if w == "mid" else full)
            info.update({"exit": e, "killed": k, "when": w, "stderr": s, "transform": t, "emitted": emitted, "propagate": prop})
        else:
            info.update({"exit": 0, "killed": 0, "when": "after", "stderr": 0, "emitted": body})
        files.append(info)
    # --glob-case-insensitive is documented for -g/--glob only: a file whose
    # name matches a --pre-glob only when case is ignored stays unselected
    # (its side-car configuration would make the command upper-case it and fail)
    gci = []
    if rng.chance(1, 3):
        gci = ["--glob-case-insensitive"]
        body = gen_body(rng, False)
        with open(os.path.join(d, "G9.PP"), "wb") as f:
            f.write(body)
        with open(os.path.join(d, "G9.PP.cfg"), "w") as f:
            f.write("exit_status=3\nwhen=after\nstderr_bytes=10\ntransform=upper\nkillme=0\ncut=0\n")
        files.append({"name": "G9.PP", "selected": False, "body": body, "exit": 0, "killed": 0, "when": "after",
                      "stderr": 0, "emitted": body, "upper_case_name": True})
    pattern = "needle" if rng.chance(3, 4) else "NEEDLE"
    side = os.path.join(env.tmp, "side")
    os.makedirs(side)
    for fi in files:
        with open(os.path.join(side, fi["name"]), "wb") as f:
            f.write(fi["emitted"])
    # the same selection (*.pp files) spelled in the documented ways: a
    # positive glob; exclusions only ("precede a glob with a ! to exclude
    # it": whatever is not excluded goes to the command); and mixtures where
    # the last matching glob decides
    gstyle = rng.below(4) if not gci else rng.pick([0, 3])
    globs = [["--pre-glob", "*.pp"],
             ["--pre-glob", "!*.txt", "--pre-glob", "!*.cfg"],
             ["--pre-glob", "*", "--pre-glob", "!*.txt", "--pre-glob", "!*.cfg"],
             ["--pre-glob", "!f*", "--pre-glob", "*.pp"]][gstyle]
    env.count("pre_glob_style_%d" % gstyle)
    # ("multiline": -U with a pattern that may match a line terminator, so
    # that each command's whole output is collected before it is searched, in
    # a buffer the worker keeps from one file to the next)
    modes = [("none", []), ("multiline", ["-U"]), ("max-count", ["-m1"]), ("quiet", ["-q"]), ("files-with-matches", ["-l"])]
    if tier == "quick":
        modes = modes[:2] + [rng.pick(modes[2:])]
    plain_pattern = pattern
    for mname, margs in modes:
        pattern = plain_pattern + ("\\s?" if mname == "multiline" else "")
        for threads in (["-j1", "-j4"] if tier == "thorough" else [rng.pick(["-j1", "-j4"])]):
            rep["evaluations"] += 1
            argv = ["--no-config", "--color", "never", "--no-heading", "-H", "-n", threads, "--pre", script] + globs + \
                gci + margs + ["-e", pattern, "t"]
            r = common.run_rg(argv, env.tmp, env.home, timeout=180)
            if r is None:
                env.viol("C18:%s:did-not-finish" % mname,
                         "rg --pre did not finish within 180 s (some command writes 4 MB to stderr)",
                         {"kind": "cli", "seed": case["seed"], "argv": argv}) if False else env.inconclusive("watchdog with --pre")
                continue
            env.count("rg_runs")
            ref = common.run_rg(["--no-config", "--color", "never", "--no-heading", "-H", "-n", "-j1"] + margs +
                                ["-e", pattern, "side"], env.tmp, env.home, timeout=180)
            if ref is None:
                env.inconclusive("watchdog (reference)")
                continue
            status, so, se = r
            has_match = {}
            stops_before_eof = {}
            for fi in files:
                em = fi["emitted"]
                has_match[fi["name"]] = (plain_pattern.encode() in em)
                # rg stops reading early only if the line that makes it stop
                # is complete; a match on an unterminated tail forces it to
                # read on until end of input (the output is then consumed)
                first = next((l for l in em.split(b"\n") if plain_pattern.encode() in l), None)
                idx = em.find(first) if first is not None else -1
                stops_before_eof[fi["name"]] = first is not None and em.find(b"\n", idx) >= 0
            expect_err = []
            unconstrained = []
            for fi in files:
                if not fi["selected"]:
                    continue
                failing = fi["exit"] != 0 or fi["killed"]
                if not failing:
                    continue
                early = mname not in ("none", "multiline") and has_match[fi["name"]] and stops_before_eof[fi["name"]]
                env.count("fault_%s_%s_stderr%d" % ("killed" if fi["killed"] else "exit%d" % fi["exit"], fi["when"], min(fi["stderr"], 101)))
                if early and fi["stderr"] > 0:
                    unconstrained.append(fi["name"])
                elif early:
                    pass
                else:
                    expect_err.append(fi["name"])
            rp = {"kind": "cli", "seed": case["seed"], "argv": argv, "status": status,
                  "files": [{k: v for k, v in fi.items() if k not in ("body", "emitted")} for fi in files],
                  "stderr": esc(se[:1500]), "stdout": esc(so[:1500])}
            quiet = mname == "quiet"
            if not quiet:
                for name in expect_err:
                    if ("t/" + name).encode() not in se:
                        fi = next(x for x in files if x["name"] == name)
                        env.viol("C18:%s:failing-command-not-reported:%s-%s" % (mname, "killed" if fi["killed"] else "exit", fi["when"]),
                                 "command for t/%s exits %s (%s, stderr %d bytes) after its output was consumed, but no diagnostic names the file" % (
                                     name, "by signal" if fi["killed"] else fi["exit"], fi["when"], fi["stderr"]), rp)
                ok_names = [fi["name"] for fi in files if fi["name"] not in expect_err and fi["name"] not in unconstrained]
                for name in ok_names:
                    if ("t/" + name + ":").encode() in se and (b"t/" + name.encode() + b": preprocessor command") in se:
                        fi = next(x for x in files if x["name"] == name)
                        env.viol("C18:%s:successful-command-reported-as-error" % mname,
                                 "t/%s (exit %d, when %s, stderr %d) reported as a failure" % (name, fi["exit"], fi["when"], fi["stderr"]), rp)
            # results of files whose command succeeded (or that were searched directly)
            def lines_of(out, prefix, names):
                keep = []
                for ln in out.split(b"\n"):
                    for nme in names:
                        if ln.startswith((prefix + nme).encode()):
                            keep.append(ln[len(prefix):])
                return sorted(keep)
            ok = [fi["name"] for fi in files if fi["name"] not in expect_err and fi["name"] not in unconstrained]
            if not quiet:
                got = lines_of(so, "t/", ok)
                want = lines_of(ref[1], "side/", ok)
                if got != want:
                    env.viol("C18:%s:results-differ-from-searching-command-output" % mname,
                             "results for the successfully preprocessed / directly searched files differ from rg on the bytes the command wrote (%d vs %d lines)" % (len(got), len(want)),
                             dict(rp, expected=esc(b"\n".join(want)[:1500])))
            any_match = any(has_match[n] for n in ok) or (quiet and any(has_match[fi["name"]] for fi in files))
            if expect_err and not (quiet and status == 0):
                if status != 2:
                    env.viol("C18:%s:status" % mname, "a preprocessor failed (%s) but rg exits %d" % (expect_err[:3], status), rp)
            elif not expect_err and not unconstrained:
                want_status = 0 if any(has_match[fi["name"]] for fi in files) else 1
                if status != want_status:
                    env.viol("C18:%s:status" % mname, "no failure expected: status %d, expected %d" % (status, want_status), rp)
            if expect_err and any_match:
                env.nontrivial((case["seed"], mname, threads))
    env.sample({"files": [{k: v for k, v in fi.items() if k not in ("body", "emitted")} for fi in files][:4], "pattern": plain_pattern})


def misc_case(case, env):
    """missing command, and -z on valid / truncated compressed files"""
    rep = env.rep
    rng = common.Rng(case["seed"])
    d = os.path.join(env.tmp, "z")
    os.makedirs(d)
    body = gen_body(rng, True)
    with open(os.path.join(d, "plain.txt"), "wb") as f:
        f.write(body)
    variants = {"a.gz": gzip.compress(body), "b.bz2": bz2.compress(body), "c.xz": lzma.compress(body)}
    for name, data in variants.items():
        with open(os.path.join(d, name), "wb") as f:
            f.write(data)
        with open(os.path.join(d, "trunc-" + name), "wb") as f:
            f.write(data[:max(20, len(data) // 2)])
    ref = common.run_rg(["--no-config", "-c", "needle", "z/plain.txt"], env.tmp, env.home)
    for name in variants:
        rep["evaluations"] += 1
        r = common.run_rg(["--no-config", "-z", "-c", "needle", "z/" + name], env.tmp, env.home)
        env.count("rg_runs")
        env.nontrivial((case["seed"], name))
        if r is None or ref is None:
            env.inconclusive("watchdog")
            continue
        if r[1] != ref[1] or r[0] != ref[0]:
            env.viol("C18:decompress:%s:differs-from-plain" % name.split(".")[-1],
                     "rg -z on %s gives %s, on the plain content %s" % (name, esc(r[1][:40]), esc(ref[1][:40])),
                     {"kind": "cli", "file": name, "stderr": esc(r[2][:300])})
        rep["evaluations"] += 1
        t = common.run_rg(["--no-config", "-z", "-c", "needle", "z/trunc-" + name], env.tmp, env.home)
        env.count("rg_runs")
        if t is None:
            env.inconclusive("watchdog")
            continue
        if t[0] != 2 or ("trunc-" + name).encode() not in t[2]:
            env.viol("C18:decompress:%s:truncated-not-reported" % name.split(".")[-1],
                     "truncated %s: status %d, stderr %s" % (name, t[0], esc(t[2][:200])),
                     {"kind": "cli", "file": "trunc-" + name, "stdout": esc(t[1][:100])})
        # not recognised as compressed => searched directly
    rep["evaluations"] += 1
    r = common.run_rg(["--no-config", "-z", "-c", "needle", "z/plain.txt"], env.tmp, env.home)
    if r is not None and ref is not None and (r[1] != ref[1] or r[0] != ref[0]):
        env.viol("C18:decompress:plain-file-not-searched-directly", "rg -z on a plain file differs from rg", {"kind": "cli"})
    # missing preprocessor command
    for threads in ("-j1", "-j4"):
        rep["evaluations"] += 1
        r = common.run_rg(["--no-config", threads, "--pre", os.path.join(env.tmp, "no-such-command"), "needle", "z/plain.txt"],
                          env.tmp, env.home)
        env.count("rg_runs")
        if r is None:
            env.inconclusive("watchdog")
            continue
        if r[0] != 2 or b"plain.txt" not in r[2]:
            env.viol("C18:missing-command", "missing --pre command: status %d, stderr %s" % (r[0], esc(r[2][:200])),
                     {"kind": "cli", "stdout": esc(r[1][:100])})
    env.sample({"-z": list(variants), "truncated": ["trunc-" + n for n in variants], "missing_command": True})


def check(tier, seed, t0):
    common.build_rg()
    n = 100 if tier == "quick" else 1500
    ex = {"tier": tier}
    parts = [("pre", common.run_cli_cases(None, pre_case, seed, "c18p", n, 7 if tier == "quick" else 47, extra=ex)),
             ("decompress+missing", common.run_cli_cases(None, misc_case, seed, "c18z", 16 if tier == "quick" else 96, 1 if tier == "quick" else 6, extra=ex))]
    if tier == "thorough":
        import sanitize
        parts.append(("asan", sanitize.rg_sanitizer_leg("C18", "asan", pre_case, None, 32, 2, extra={"tier": "quick"})(tier, seed)))
    rep = common.merge_reports(parts)
    cov = {"fault_points_enumerated": sum(v for k, v in rep["counters"].items() if k.startswith("pre.fault_"))}
    return common.finalize("C18", tier, seed, "fault_enumeration", RULE, rep, t0, ASSUME, floor_eval=60, floor_distinct=10,
                           extra_coverage=cov)


def replay(path):
    with open(path) as f:
        body = json.load(f)
    print(json.dumps(body.get("replay", body), indent=1)[:6000])
    return 0
