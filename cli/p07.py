"""C07 — the parallel walker terminates and loses nothing under every thread
schedule. Decided in-process (rgmon c07: hook-driven controlled scheduler in
child processes + real-thread stress); thorough adds ThreadSanitizer and Miri
legs (see sanitize.py)."""

import rustonly
import sanitize

RULE = ("runs = (small tree: chain+wide directory / single directory / random tree of <= 40 nodes; 1-4 roots; 2-4 "
        "workers; scheduling policy uniform random / PCT with 1-3 priority change points and demotion at the idle "
        "sleep / starve-one-worker; visitor Quit injected at a visit index in every second run, every index for "
        "small trees). The ignore::verif hook parks each worker at each synchronisation point (worker start/exit, "
        "send, send-quit, recv, steal, deactivate, activate, quit flag read/write, idle sleep) and a seeded policy "
        "releases one at a time, so each run is one sequentially consistent interleaving, replayable from its "
        "seed. Oracles: without Quit every entry of the serial walk is visited exactly once; with Quit no "
        "duplicates, nothing outside the tree; termination within 200*(entries+workers)+10000 hook steps; a state "
        "where every live worker has gone through the idle loop 4 times with no push/pop/counter/flag event in "
        "between is a definite livelock. Plus unserialised real-thread stress runs with yields and microsecond "
        "sleeps injected at the hooks (2-16 workers). Plus the systematic sweep: on 3 (thorough 5) tiny trees, 2-3 "
        "(thorough 4) workers, every priority order, Quit at none / every visit index: the base schedule and a "
        "preemption at every hook step (thorough: also every pair of steps), counters sweep_*. evaluations = walks; non-trivial/distinct = distinct "
        "schedules (hash of the scheduler's decision sequence).")

ASSUME = [
    "liveness is claimed as bounded progress under fair seeded schedules plus livelock-signature detection, not as termination under every schedule",
    "exceeding the step bound without the livelock signature, a child watchdog expiry or a stress walk not finishing in 30 s are inconclusive, never violations",
    "exhaustive enumeration to a preemption bound (stateless model checking) is a different technique family and is not built; PCT gives probabilistic coverage of depth-d bugs",
    "interleavings finer than hook granularity (inside crossbeam-deque) are covered only by the real-thread, TSan and Miri legs",
]


def check(tier, seed, t0):
    extra = []
    if tier == "thorough":
        extra = [("tsan", sanitize.c07_tsan_leg), ("miri", sanitize.c07_miri_leg)]
    return rustonly.check("C07", tier, seed, t0, "exploration", RULE, ASSUME, 500, 200, extra_legs=extra)


def replay(path):
    return rustonly.replay("C07", path)
