"""C13 — multi-line search reports exactly the lines covered by the pattern's
matches over the whole input.

Leg `lib`: rgmon c13 (flattened Sink events of the multi-line strategies vs
the whole-input model, with inversion, context, CRLF).
Leg `cli`: `rg -a -U -n` / `-v` printed line numbers vs the same model.
"""

import json
import re
import subprocess

import common
from common import esc, unesc

RULE = ("cases = (pattern that may cross lines: 32 multi-line shapes over a small alphabet such as "
        "'L\\nL', '\\n', 'L|\\bL\\nL' (a branch starting exactly where the previous match ended), '^', '$', "
        "'^$', '(?s)L.*?L', plus random ASTs and the repository's test patterns; -U matcher flags incl. "
        "--multiline-dotall, -i, --crlf; input of 1-200 lines over a dense small alphabet or drawn from "
        "the pattern's language; searcher configuration with A,B in 0..6, invert, passthru, line "
        "numbers); slice, reader and file/mmap strategies; the flattened delivered lines must equal the "
        "grep model applied to the lines covered by the successive leftmost matches found with "
        "look-around over the whole input. Non-trivial = some but not all lines covered; distinct by "
        "hash of (pattern, flags, configuration, input).")

ASSUME = [
    "the search for the next match resumes at the end of the previous match (one byte further after an empty match); an empty match covers the line containing its position, none if that is the end of input right after a terminator",
    "the partition of matching lines into blocks is not compared, only the flattened lines",
    "regex-automata is the definition of a match",
]

REC = re.compile(rb"^(\d+)([:-])", re.S)


def cli_case(case, env):
    rep = env.rep
    data = unesc(case["input"])
    path = env.write("f", data)
    covered = case["covered"]
    allnums = list(range(1, case["nlines"] + 1))
    for invert in (False, True):
        rep["evaluations"] += 1
        argv = ["-a", "-U", "-n", "--no-heading", "--color", "never", "--no-config"] + \
            [a for a in case["args"] if a != "-U"] + (["-v"] if invert else []) + ["-e", case["pattern"], path]
        r = common.run_rg(argv, env.tmp, env.home)
        if r is None:
            env.inconclusive("watchdog")
            continue
        env.count("rg_runs")
        status, so, se = r
        if status == 2:
            env.viol("C13:cli:error", "rg failed: %s" % esc(se[:200]),
                     {"kind": "cli", "argv": argv[:-1], "input": case["input"]})
            continue
        want = [n for n in allnums if (n in covered) != invert]
        got = []
        for rec in so.split(b"\n"):
            m = REC.match(rec)
            if m:
                got.append(int(m.group(1)))
            elif rec:
                got.append(-1)
        if 0 < len(covered) < case["nlines"]:
            env.nontrivial((case["pattern"], tuple(case["args"]), case["input"], invert))
        if got != want:
            sp = [g for g in got if g not in want]
            ms = [w for w in want if w not in got]
            d = "spurious" if sp and not ms else ("missed" if ms and not sp else "both")
            env.viol("C13:cli:%s%s" % (d, ":inverted" if invert else ""),
                     "rg -U %s %r prints lines %s, model covers %s" % ("-v" if invert else "", case["pattern"], got[:12], want[:12]),
                     {"kind": "cli", "argv": argv[:-1] + ["<file>"], "input": case["input"],
                      "stdout": esc(so[:3000]), "expected_lines": want})
    env.sample({"argv": ["rg", "-a", "-U", "-n"] + case["args"] + ["-e", case["pattern"]],
                "input": case["input"][:100], "covered_lines": covered[:20]})


def check(tier, seed, t0):
    common.build_harness()
    common.build_rg()
    total = 1500 if tier == "quick" else 30000
    parts = [("lib", common.run_rgmon("c13", tier, seed)),
             ("cli", common.run_cli_cases("c13", cli_case, seed, "c13cli", total, 94 if tier == "quick" else 200))]
    rep = common.merge_reports(parts)
    return common.finalize("C13", tier, seed, "exploration", RULE, rep, t0, ASSUME,
                           floor_eval=1000, floor_distinct=300)


def replay(path):
    with open(path) as f:
        body = json.load(f)
    rp = body.get("replay", body)
    if rp.get("kind") == "cli":
        print(json.dumps(rp, indent=1)[:6000])
        return 0
    common.build_harness()
    return subprocess.run([common.RGMON, "replay", "c13", path]).returncode
