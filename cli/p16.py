"""C16 — stopping early or failing mid-stream yields a prefix of the full
results (fault enumeration over sink stop indices and read indices).

Leg `lib`: rgmon c16. Leg `cli`: `rg -m N [-A a -B b]` vs the grep model cut
after the N-th matching line plus the trailing context it is entitled to.
"""

import base64
import json
import subprocess

import common
from common import esc, unesc

RULE = ("cases = C02-style inputs/configurations, one third of them with a pattern that can match "
        "the terminator (multi-line strategy), one quarter with binary detection (quit/convert) and "
        "NUL bytes planted; for each case and each of three strategies the uninterrupted event log "
        "is recorded, then the sink returns false / Err at EVERY event index (quick: all indices "
        "when the log has <= 40 events, otherwise 40 sampled + boundaries; thorough: up to 400) and "
        "the reader fails / is interrupted at every read index likewise; delivered events must be "
        "log_full[0..=k] (+ exactly one finish after false, none after Err), the error must be "
        "returned. CLI leg: -m N for N in 1..4. Non-trivial = uninterrupted log has > 3 events; "
        "distinct by hash of (pattern, configuration, input, strategy).")

ASSUME = [
    "an Interrupted read may either be retried (log equal to the uninterrupted one) or surface as Err(Interrupted) with a prefix",
    "finish.byte_count after a stop is not constrained",
    "with -m N the lines after the N-th match that fall into its after-context window are compared by line number and content, not by separator character",
]


def cli_case(case, env):
    rep = env.rep
    if case["stop_on_nonmatch"]:
        return
    data = unesc(case["input"])
    path = env.write("f", data)
    model = case["model"]
    mlines = [e for e in model if e["k"] == "M"]
    for n in (1, 2, 3, 4):
        if n > len(mlines) and n > 1:
            break
        rep["evaluations"] += 1
        args = [a for a in case["args"] if a != "-N"]
        if "-n" not in args:
            args.append("-n")
        argv = ["-a", "--no-heading", "--color", "never", "--no-config", "-m", str(n)] + args + ["-e", case["pattern"], path]
        r = common.run_rg(argv, env.tmp, env.home)
        if r is None:
            env.inconclusive("watchdog")
            continue
        env.count("rg_runs")
        status, so, se = r
        # expected (line number, content) pairs
        # model events carry line numbers only if line_number was on; recompute from order
        want = []
        cut_line = None
        seen = 0
        # assign line numbers by offset: the model lists delivered lines in order
        offs = {}
        ln = 0
        pos = 0
        for piece in data.split(b"\n"):
            ln += 1
            offs[pos] = ln
            pos += len(piece) + 1
        for e in model:
            if e["k"] == "break":
                continue
            lno = offs.get(e["off"])
            if e["k"] == "M":
                seen += 1
                if seen == n:
                    cut_line = lno
            # after the N-th matching line only its trailing context is printed
            if cut_line is not None and lno > cut_line + case["after"]:
                break
            b = unesc(e["bytes"])
            nl = b"\r\n" if case["term"] == "crlf" else b"\n"
            want.append((lno, b if b.endswith(b"\n") else b + nl))
        got = []
        bad = False
        for rec in so.split(b"\n"):
            if rec in (b"", b"--", b"--\r"):
                continue
            i = 0
            while i < len(rec) and 48 <= rec[i] <= 57:
                i += 1
            if i == 0 or i >= len(rec) or rec[i:i + 1] not in (b":", b"-"):
                bad = True
                break
            got.append((int(rec[:i]), rec[i + 1:] + b"\n"))
        if len(mlines) > n:
            env.nontrivial((tuple(args), case["input"], n))
            env.count("runs_where_limit_cut_results")
        if bad or got != want:
            env.viol("C16:cli:max-count-output",
                     "rg -m %d %s: printed lines %s, expected %s" % (n, " ".join(args), [g[0] for g in got][:12], [w[0] for w in want][:12]),
                     {"kind": "cli", "argv": argv[:-1] + ["<file>"], "input": case["input"],
                      "stdout": esc(so[:3000]), "expected": [[w[0], esc(w[1])] for w in want][:200]})
        # the same limit through the JSON printer (its own match counting and
        # after-context bookkeeping)
        rep["evaluations"] += 1
        jargv = ["--json"] + [a for a in argv if a not in ("--no-heading",)]
        rj = common.run_rg(jargv, env.tmp, env.home)
        if rj is None:
            env.inconclusive("watchdog")
        else:
            env.count("rg_runs")
            jgot, jbad = [], False
            for rec in rj[1].split(b"\n"):
                if not rec:
                    continue
                try:
                    o = json.loads(rec)
                except ValueError:
                    jbad = True
                    break
                if o.get("type") not in ("match", "context"):
                    continue
                d = o["data"]
                ln = d["lines"]
                raw = ln["text"].encode("utf-8") if "text" in ln else base64.b64decode(ln["bytes"])
                # a multi-line record carries several lines: split them
                first = d.get("line_number")
                pieces = raw.split(b"\n")
                if pieces and pieces[-1] == b"":
                    pieces.pop()
                for k, piece in enumerate(pieces):
                    jgot.append((first + k if first is not None else None, piece + b"\n"))
            jwant = [(l, c if c.endswith(b"\n") else c + b"\n") for l, c in want]
            # rg re-terminates an unterminated last line in text output only
            if jgot and jwant and not data.endswith(b"\n") and jgot[-1][1] == jwant[-1][1][:-2 if case["term"] == "crlf" else -1] + b"\n":
                jgot[-1] = jwant[-1]
            if jbad or [g[0] for g in jgot] != [w[0] for w in jwant]:
                env.viol("C16:cli:max-count-json",
                         "rg --json -m %d %s: lines %s, expected %s" % (n, " ".join(args), [g[0] for g in jgot][:12], [w[0] for w in jwant][:12]),
                         {"kind": "cli", "argv": jargv[:-1] + ["<file>"], "input": case["input"],
                          "stdout": esc(rj[1][:3000]), "expected": [[w[0], esc(w[1])] for w in want][:200]})
        env.sample({"argv": ["rg"] + argv[:-1] + ["<file>"], "input": case["input"][:100],
                    "expected_lines": [w[0] for w in want][:20]})


def check(tier, seed, t0):
    common.build_harness()
    common.build_rg()
    total = 1000 if tier == "quick" else 20000
    parts = [("lib", common.run_rgmon("c16", tier, seed)),
             ("cli", common.run_cli_cases("c03", cli_case, seed, "c16cli", total, 63 if tier == "quick" else 200))]
    if tier == "thorough":
        import sanitize
        parts.append(("miri", sanitize.miri_leg("C16", 1)(tier, seed)))
    rep = common.merge_reports(parts)
    cov = {"fault_points_enumerated": rep["counters"].get("lib.interrupted_runs", 0) + rep["counters"].get("lib.faulted_reads", 0),
           "legs_fully_enumerated": rep["counters"].get("lib.legs_with_every_stop_index_enumerated", 0)}
    return common.finalize("C16", tier, seed, "fault_enumeration", RULE, rep, t0, ASSUME,
                           floor_eval=200, floor_distinct=100, extra_coverage=cov)


def replay(path):
    with open(path) as f:
        body = json.load(f)
    rp = body.get("replay", body)
    if rp.get("kind") == "cli":
        print(json.dumps(rp, indent=1)[:6000])
        return 0
    common.build_harness()
    return subprocess.run([common.RGMON, "replay", "c16", path]).returncode
