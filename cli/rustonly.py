"""Driver glue for properties decided entirely inside the rgmon harness."""

import json
import subprocess

import common


def check(prop, tier, seed, t0, level, rule, assume, floor_eval, floor_distinct, extra_legs=None, timeout=7200):
    common.build_harness()
    parts = [("lib", common.run_rgmon(prop.lower(), tier, seed, timeout=timeout))]
    for name, fn in (extra_legs or []):
        parts.append((name, fn(tier, seed)))
    rep = common.merge_reports(parts)
    return common.finalize(prop, tier, seed, level, rule, rep, t0, assume,
                           floor_eval=floor_eval, floor_distinct=floor_distinct)


def replay(prop, path):
    common.build_harness()
    return subprocess.run([common.RGMON, "replay", prop.lower(), path]).returncode
