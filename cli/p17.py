"""C17 — transcoded input is searched as its UTF-8 equivalent.

Leg `lib`: rgmon c17 (encoded bytes through every strategy, read histories
that split code units / surrogate pairs / the BOM and straddle the 8 KiB decode
buffer, hooked roll buffer capacities; reference = one-shot independent
transcoding searched with search_slice).
Leg `cli`: `rg` / `rg -E label` on an encoded file vs `rg` on its UTF-8
transcoding (well-formed texts), BOM-over-label, and `-E none` keeping the BOM.
"""

import json
import os
import subprocess

import common
from common import esc

RULE = ("cases = (text over BMP and astral characters, CRLF or LF, 1-1500 lines with occasional multi-KB lines, "
        "one quarter malformed: lone surrogates, odd trailing byte, invalid bytes; encoded as UTF-16LE/BE with BOM "
        "(sniffed), UTF-8 with BOM, UTF-16LE/BE / windows-1252 / shift_jis / utf-8 by explicit label, BOM with a "
        "conflicting label, BOM with sniffing disabled) x strategies (slice, mmap file, file, scripted readers with "
        "1/2/3/5/7-byte reads, reads of 8191..16385 bytes, roll buffer capacities 1..4096) x line / multi-line "
        "matcher. The flattened event log must equal that of search_slice over the one-shot reference transcoding. "
        "Non-trivial = the reference search has at least one match; distinct by hash of (pattern, configuration, "
        "label, raw bytes).")

ASSUME = [
    "reference UTF-16 decoding follows the WHATWG algorithm (unpaired surrogate -> U+FFFD and reprocess; pending lead byte/surrogate at end -> one U+FFFD); legacy encodings use encoding_rs one-shot decode",
    "with a UTF-8 BOM or an explicit utf-8 label the bytes are passed through unchanged apart from the mark (utf8_passthru)",
]

WORDS = ["m", "x", "yz", " ", "é", "δ", "Δ", "😀", "日本", "語", "ß", "0", ".", "mm", "ü", "a"]
WORDS_L1 = ["m", "x", "yz", " ", "é", "ß", "0", ".", "ü", "a", "ÿ", "©"]
WORDS_SJ = ["m", "x", "yz", " ", "日本", "語", "0", ".", "a", "ア"]
PATS = ["m", "^m", "é", "日", "[δΔ]", "m.*x", "ß$", "😀|語"]


def gen_text(rng, words, nlines, crlf):
    out = []
    for i in range(nlines):
        line = "".join(rng.pick(words) for _ in range(rng.below(6)))
        if rng.chance(1, 15):
            line += "".join(rng.pick(words) for _ in range(rng.range(200, 4000)))
        out.append(line)
    nl = "\r\n" if crlf else "\n"
    s = nl.join(out)
    if not rng.chance(1, 4):
        s += nl
    return s


def cli_case(case, env):
    rep = env.rep
    rng = common.Rng(case["seed"])
    crlf = rng.chance(1, 5)
    nlines = rng.pick([3, 8, 20, 60, 300, 2000])
    kind = rng.below(8)
    pat = rng.pick(PATS)
    label = None
    extra = []
    if kind in (0, 1):
        text = gen_text(rng, WORDS, nlines, crlf)
        le = kind == 0
        raw = (b"\xff\xfe" if le else b"\xfe\xff") + text.encode("utf-16-le" if le else "utf-16-be")
        name = "utf16-bom"
    elif kind == 2:
        text = gen_text(rng, WORDS, nlines, crlf)
        raw = b"\xef\xbb\xbf" + text.encode("utf-8")
        name = "utf8-bom"
    elif kind == 3:
        text = gen_text(rng, WORDS, nlines, crlf)
        le = rng.chance(1, 2)
        raw = text.encode("utf-16-le" if le else "utf-16-be")
        extra = ["-E", "utf-16le" if le else "utf-16be"]
        name = "label-utf16"
    elif kind == 4:
        text = gen_text(rng, WORDS_L1, nlines, crlf)
        raw = text.encode("cp1252")
        extra = ["-E", "latin1"]
        name = "label-latin1"
    elif kind == 5:
        text = gen_text(rng, WORDS_SJ, nlines, crlf)
        raw = text.encode("shift_jis")
        extra = ["-E", "shift_jis"]
        name = "label-shift_jis"
    elif kind == 6:
        text = gen_text(rng, WORDS, nlines, crlf)
        le = rng.chance(1, 2)
        raw = (b"\xff\xfe" if le else b"\xfe\xff") + text.encode("utf-16-le" if le else "utf-16-be")
        extra = ["-E", rng.pick(["latin1", "shift_jis", "utf-8", "utf-16be", "utf-16le"])]
        name = "bom-over-label"
    else:
        text = gen_text(rng, WORDS, nlines, crlf)
        raw = b"\xef\xbb\xbf" + text.encode("utf-8")
        name = "encoding-none"
    if text.startswith("﻿"):
        return
    env.write("enc", raw)
    env.write("utf8", text.encode("utf-8"))
    base = ["--no-config", "--color", "never", "-n", "-b", "--no-heading"] + (["--crlf"] if crlf else [])
    ctx = rng.pick([[], ["-C1"], ["-v"], ["-c"], ["-o"], ["-U"]])
    base += ctx
    if name == "encoding-none":
        # raw bytes searched untouched, mark included: the mark is findable
        rep["evaluations"] += 1
        r1 = common.run_rg(["--no-config", "-E", "none", "-c", "-e", "(?-u)^\\xEF\\xBB\\xBF", "enc"], env.tmp, env.home)
        r2 = common.run_rg(["--no-config", "-c", "-e", "(?-u)^\\xEF\\xBB\\xBF", "enc"], env.tmp, env.home)
        if r1 is None or r2 is None:
            env.inconclusive("watchdog")
            return
        env.count("rg_runs", 2)
        env.nontrivial(("none", bytes(raw[:64]), len(raw)))
        if r1[1].strip() != b"1" or r2[0] != 1:
            env.viol("C17:cli:encoding-none-mark",
                     "-E none count of the mark = %r (want 1), default sniffing status %d (want 1: mark removed)" % (r1[1], r2[0]),
                     {"kind": "cli", "raw": esc(raw[:2000])})
        # and the rest of the results equal a search of the same bytes with the mark's first byte altered
        return
    ref = common.run_rg(base + ["-e", pat, "utf8"], env.tmp, env.home)
    if ref is None:
        env.inconclusive("watchdog")
        return
    for variant, vargs, stdin in (("mmap", ["--mmap", "enc"], None), ("no-mmap", ["--no-mmap", "enc"], None), ("stdin", ["-"], raw)):
        rep["evaluations"] += 1
        r = common.run_rg(base + extra + ["-e", pat] + vargs, env.tmp, env.home, stdin=stdin)
        if r is None:
            env.inconclusive("watchdog")
            continue
        env.count("rg_runs")
        env.count("kind_" + name)
        if ref[0] == 0:
            env.nontrivial((name, pat, tuple(ctx), bytes(raw[:200]), len(raw), variant))
        if (r[0], r[1]) != (ref[0], ref[1]):
            env.viol("C17:cli:%s:%s-differs-from-utf8" % (name, variant),
                     "rg %s on the %s file differs from rg on its UTF-8 transcoding (status %d vs %d)" % (" ".join(extra + ctx + [pat]), name, r[0], ref[0]),
                     {"kind": "cli", "argv": base + extra + ["-e", pat] + vargs, "raw": esc(raw[:3000]),
                      "stdout": esc(r[1][:2000]), "utf8_stdout": esc(ref[1][:2000])})
    env.sample({"kind": name, "argv": ["rg"] + base + extra + ["-e", pat, "<encoded file>"], "raw": esc(raw[:60]), "raw_len": len(raw)})


def check(tier, seed, t0):
    common.build_harness()
    common.build_rg()
    total = 1000 if tier == "quick" else 20000
    parts = [("lib", common.run_rgmon("c17", tier, seed)),
             ("cli", common.run_cli_cases(None, cli_case, seed, "c17cli", total, 63 if tier == "quick" else 200))]
    if tier == "thorough":
        import sanitize
        parts.append(("miri", sanitize.miri_leg("C17", 2)(tier, seed)))
    rep = common.merge_reports(parts)
    return common.finalize("C17", tier, seed, "exploration", RULE, rep, t0, ASSUME,
                           floor_eval=300, floor_distinct=150)


def replay(path):
    with open(path) as f:
        body = json.load(f)
    rp = body.get("replay", body)
    if rp.get("kind") == "cli":
        print(json.dumps(rp, indent=1)[:6000])
        return 0
    common.build_harness()
    return subprocess.run([common.RGMON, "replay", "c17", path]).returncode
