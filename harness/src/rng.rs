//! Small deterministic PRNG (SplitMix64 seeding xoshiro256**). No external
//! crates so that the harness also runs under Miri.

#[derive(Clone, Debug)]
pub struct Rng {
    s: [u64; 4],
}

pub fn splitmix(x: &mut u64) -> u64 {
    *x = x.wrapping_add(0x9E3779B97F4A7C15);
    let mut z = *x;
    z = (z ^ (z >> 30)).wrapping_mul(0xBF58476D1CE4E5B9);
    z = (z ^ (z >> 27)).wrapping_mul(0x94D049BB133111EB);
    z ^ (z >> 31)
}

/// Mix several integers into one seed.
pub fn mix(parts: &[u64]) -> u64 {
    let mut h = 0x243F6A8885A308D3u64;
    for &p in parts {
        let mut x = h ^ p;
        h = splitmix(&mut x);
    }
    h
}

impl Rng {
    pub fn new(seed: u64) -> Rng {
        let mut x = seed;
        let s = [
            splitmix(&mut x),
            splitmix(&mut x),
            splitmix(&mut x),
            splitmix(&mut x),
        ];
        Rng { s }
    }

    pub fn next_u64(&mut self) -> u64 {
        let result = self.s[1].wrapping_mul(5).rotate_left(7).wrapping_mul(9);
        let t = self.s[1] << 17;
        self.s[2] ^= self.s[0];
        self.s[3] ^= self.s[1];
        self.s[1] ^= self.s[2];
        self.s[0] ^= self.s[3];
        self.s[2] ^= t;
        self.s[3] = self.s[3].rotate_left(45);
        result
    }

    /// Uniform in 0..n (n > 0).
    pub fn below(&mut self, n: usize) -> usize {
        debug_assert!(n > 0);
        (self.next_u64() % (n as u64)) as usize
    }

    /// Uniform in lo..=hi.
    pub fn range(&mut self, lo: usize, hi: usize) -> usize {
        lo + self.below(hi - lo + 1)
    }

    pub fn chance(&mut self, num: usize, den: usize) -> bool {
        self.below(den) < num
    }

    pub fn bool(&mut self) -> bool {
        self.next_u64() & 1 == 1
    }

    pub fn pick<T: Copy>(&mut self, xs: &[T]) -> T {
        xs[self.below(xs.len())]
    }

    pub fn pick_ref<'a, T>(&mut self, xs: &'a [T]) -> &'a T {
        &xs[self.below(xs.len())]
    }

    /// Pick an index according to integer weights.
    pub fn weighted(&mut self, weights: &[usize]) -> usize {
        let total: usize = weights.iter().sum();
        let mut r = self.below(total);
        for (i, &w) in weights.iter().enumerate() {
            if r < w {
                return i;
            }
            r -= w;
        }
        weights.len() - 1
    }

    pub fn shuffle<T>(&mut self, xs: &mut [T]) {
        for i in (1..xs.len()).rev() {
            let j = self.below(i + 1);
            xs.swap(i, j);
        }
    }
}

/// FNV-1a 64 bit hash, for counting distinct cases.
pub fn fnv(bytes: &[u8]) -> u64 {
    let mut h = 0xcbf29ce484222325u64;
    for &b in bytes {
        h ^= b as u64;
        h = h.wrapping_mul(0x100000001b3);
    }
    h
}

pub fn fnv_parts(parts: &[&[u8]]) -> u64 {
    let mut h = 0xcbf29ce484222325u64;
    for p in parts {
        for &b in *p {
            h ^= b as u64;
            h = h.wrapping_mul(0x100000001b3);
        }
        h ^= 0xff;
        h = h.wrapping_mul(0x100000001b3);
    }
    h
}
