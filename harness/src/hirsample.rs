//! HIR-guided sampler: draw byte strings from (a superset of) the language of
//! a `regex_syntax::hir::Hir`. Look-around assertions are ignored while
//! deriving, so a sample is a *likely* member; whoever uses it re-checks
//! membership with a reference engine.

use regex_syntax::hir::{Class, Hir, HirKind};

use crate::rng::Rng;

pub struct Sampler<'r> {
    pub rng: &'r mut Rng,
    /// Bytes that should be avoided when a class offers a choice (e.g. the
    /// line terminator), best effort.
    pub avoid: Vec<u8>,
    /// Upper bound on output length; derivation is cut when exceeded.
    pub max_len: usize,
}

impl<'r> Sampler<'r> {
    pub fn new(rng: &'r mut Rng) -> Sampler<'r> {
        Sampler { rng, avoid: vec![], max_len: 200 }
    }

    pub fn sample(&mut self, hir: &Hir) -> Vec<u8> {
        let mut out = Vec::new();
        self.go(hir, &mut out);
        out
    }

    fn go(&mut self, hir: &Hir, out: &mut Vec<u8>) {
        if out.len() > self.max_len {
            return;
        }
        match hir.kind() {
            HirKind::Empty => {}
            HirKind::Literal(lit) => out.extend_from_slice(&lit.0),
            HirKind::Class(cls) => self.class(cls, out),
            HirKind::Look(_) => {}
            HirKind::Repetition(rep) => {
                let min = rep.min as usize;
                let max = rep.max.map(|m| m as usize);
                let mut choices = vec![min, min + 1, min + 3];
                if let Some(m) = max {
                    choices.push(m);
                    for c in choices.iter_mut() {
                        if *c > m {
                            *c = m;
                        }
                    }
                }
                let n = self.rng.pick(&choices).min(16usize.max(min));
                for _ in 0..n {
                    self.go(&rep.sub, out);
                }
            }
            HirKind::Capture(cap) => self.go(&cap.sub, out),
            HirKind::Concat(subs) => {
                for s in subs {
                    self.go(s, out);
                }
            }
            HirKind::Alternation(subs) => {
                let i = self.rng.below(subs.len());
                self.go(&subs[i], out);
            }
        }
    }

    fn class(&mut self, cls: &Class, out: &mut Vec<u8>) {
        match cls {
            Class::Unicode(u) => {
                let ranges = u.ranges();
                if ranges.is_empty() {
                    return;
                }
                for _attempt in 0..8 {
                    // prefer small / ASCII ranges half of the time
                    let r = if self.rng.bool() {
                        ranges[self.rng.below(ranges.len().min(6))]
                    } else {
                        ranges[self.rng.below(ranges.len())]
                    };
                    let (lo, hi) = (r.start() as u32, r.end() as u32);
                    let c = match self.rng.below(4) {
                        0 => lo,
                        1 => hi,
                        _ => lo + (self.rng.next_u64() % (hi - lo + 1) as u64) as u32,
                    };
                    if let Some(ch) = char::from_u32(c) {
                        if ch.is_ascii() && self.avoid.contains(&(ch as u8)) {
                            continue;
                        }
                        let mut buf = [0u8; 4];
                        out.extend_from_slice(
                            ch.encode_utf8(&mut buf).as_bytes(),
                        );
                        return;
                    }
                }
            }
            Class::Bytes(b) => {
                let ranges = b.ranges();
                if ranges.is_empty() {
                    return;
                }
                for _attempt in 0..8 {
                    let r = ranges[self.rng.below(ranges.len())];
                    let (lo, hi) = (r.start() as u32, r.end() as u32);
                    let c = match self.rng.below(4) {
                        0 => lo,
                        1 => hi,
                        _ => lo + (self.rng.next_u64() % (hi - lo + 1) as u64) as u32,
                    } as u8;
                    if self.avoid.contains(&c) {
                        continue;
                    }
                    out.push(c);
                    return;
                }
            }
        }
    }
}

/// Collect the literal bytes that appear in an HIR (for building small
/// alphabets around a pattern).
pub fn literal_bytes(hir: &Hir, out: &mut Vec<u8>) {
    match hir.kind() {
        HirKind::Literal(lit) => {
            for &b in lit.0.iter() {
                if !out.contains(&b) {
                    out.push(b);
                }
            }
        }
        HirKind::Class(Class::Unicode(u)) => {
            for r in u.ranges().iter().take(3) {
                if r.start().is_ascii() && !out.contains(&(r.start() as u8)) {
                    out.push(r.start() as u8);
                }
            }
        }
        HirKind::Class(Class::Bytes(b)) => {
            for r in b.ranges().iter().take(3) {
                if !out.contains(&r.start()) {
                    out.push(r.start());
                }
            }
        }
        HirKind::Repetition(rep) => literal_bytes(&rep.sub, out),
        HirKind::Capture(cap) => literal_bytes(&cap.sub, out),
        HirKind::Concat(subs) | HirKind::Alternation(subs) => {
            for s in subs {
                literal_bytes(s, out);
            }
        }
        _ => {}
    }
}
