//! Input (haystack) generators shared by several properties.

use regex_syntax::hir::Hir;

use crate::{hirsample::Sampler, model::Term, rng::Rng};

pub const NOISE: &[&[u8]] = &[
    b"a", b"b", b"c", b"A", b"B", b" ", b"\t", b"0", b"7", b"_", b"-", b".",
    "é".as_bytes(), "δ".as_bytes(), "Δ".as_bytes(), b"foo", b"Bar", b"xyz",
    b"ab", b"z", b"\xff", b"\xc3", b"\r", "😀".as_bytes(), b"abc", b"e", b"t",
    b"fo", b"oo", b"ba", b"aa", b"*",
];

pub fn noise_line(rng: &mut Rng, maxlen: usize) -> Vec<u8> {
    let n = rng.below(maxlen + 1);
    let mut v = Vec::new();
    for _ in 0..n {
        v.extend_from_slice(rng.pick(NOISE));
    }
    v
}

pub fn mutate(rng: &mut Rng, v: &mut Vec<u8>) {
    if v.is_empty() {
        v.extend_from_slice(rng.pick(NOISE));
        return;
    }
    let i = rng.below(v.len());
    match rng.below(5) {
        0 => {
            v.remove(i);
        }
        1 => {
            let ins = rng.pick(NOISE);
            for (k, &b) in ins.iter().enumerate() {
                v.insert(i + k, b);
            }
        }
        2 => {
            v[i] = rng.pick(NOISE)[0];
        }
        3 => {
            if v[i].is_ascii_lowercase() {
                v[i] = v[i].to_ascii_uppercase();
            } else if v[i].is_ascii_uppercase() {
                v[i] = v[i].to_ascii_lowercase();
            } else {
                v.truncate(i);
            }
        }
        _ => {
            v.truncate(i);
        }
    }
}

/// One line's content (no terminator). `hirs` are HIRs to sample from.
pub fn gen_content(rng: &mut Rng, hirs: &[&Hir], term: Term) -> Vec<u8> {
    let mut v = match rng.weighted(&[
        if hirs.is_empty() { 0 } else { 10 },
        if hirs.is_empty() { 0 } else { 8 },
        6,
        2,
        1,
    ]) {
        0 | 1 => {
            let which = rng.below(hirs.len());
            let embed = rng.below(3);
            let mutated = rng.chance(1, 2);
            let hir = hirs[which];
            let mut s = {
                let mut sm = Sampler::new(rng);
                sm.avoid = vec![term.byte()];
                sm.sample(hir)
            };
            if mutated {
                mutate(rng, &mut s);
            }
            match embed {
                0 => s,
                1 => {
                    let mut p = noise_line(rng, 3);
                    p.extend_from_slice(&s);
                    p
                }
                _ => {
                    let mut p = noise_line(rng, 2);
                    p.extend_from_slice(&s);
                    p.extend_from_slice(&noise_line(rng, 2));
                    p
                }
            }
        }
        2 => noise_line(rng, 8),
        3 => Vec::new(),
        _ => {
            // long line
            let n = rng.range(100, 3000);
            let mut v = Vec::with_capacity(n);
            while v.len() < n {
                v.extend_from_slice(rng.pick(NOISE));
            }
            v
        }
    };
    // The content of a line cannot contain the terminator byte.
    let tb = term.byte();
    v.retain(|&b| b != tb);
    v
}

/// Build an input of `nlines` lines. Under CRLF most lines end in "\r\n",
/// some in a bare "\n". The final terminator is sometimes missing.
pub fn gen_input(
    rng: &mut Rng,
    hirs: &[&Hir],
    term: Term,
    nlines: usize,
) -> Vec<u8> {
    let mut out = Vec::new();
    for i in 0..nlines {
        let c = gen_content(rng, hirs, term);
        out.extend_from_slice(&c);
        let last = i + 1 == nlines;
        if last && rng.chance(1, 4) {
            break;
        }
        match term {
            Term::Lf => out.push(b'\n'),
            Term::Nul => out.push(0),
            Term::Crlf => {
                if rng.chance(1, 8) {
                    out.push(b'\n');
                } else {
                    out.extend_from_slice(b"\r\n");
                }
            }
        }
    }
    out
}
