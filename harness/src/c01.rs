//! C01 — a line is reported iff the pattern matches that line.

use regex_syntax::hir::Hir;
use serde_json::{json, Value};

use crate::{
    inputgen,
    model::{split_lines, Term},
    oracle::{self, Case, Oracle, PatFlags},
    patgen,
    report::{esc, esc_short, unesc, Report},
    rng::{fnv_parts, Rng},
    run::{run_leg, Leg, SearchCfg},
    sinklog::Event,
    Ctx,
};

#[derive(Clone, Debug)]
pub struct Case01 {
    pub patterns: Vec<String>,
    pub flags: PatFlags,
    pub input: Vec<u8>,
}

impl Case01 {
    pub fn to_json(&self) -> Value {
        json!({
            "patterns": self.patterns,
            "flags": self.flags.to_json(),
            "input": esc(&self.input),
        })
    }
    pub fn from_json(v: &Value) -> Case01 {
        Case01 {
            patterns: v["patterns"]
                .as_array()
                .unwrap()
                .iter()
                .map(|x| x.as_str().unwrap().to_string())
                .collect(),
            flags: PatFlags::from_json(&v["flags"]),
            input: unesc(v["input"].as_str().unwrap()),
        }
    }
}

pub fn gen_flags(rng: &mut Rng) -> PatFlags {
    let term = match rng.weighted(&[5, 3, 2]) {
        0 => Term::Lf,
        1 => Term::Crlf,
        _ => Term::Nul,
    };
    let case = match rng.weighted(&[5, 3, 3]) {
        0 => Case::Sensitive,
        1 => Case::Insensitive,
        _ => Case::Smart,
    };
    let (word, whole_line) = match rng.weighted(&[7, 2, 2]) {
        0 => (false, false),
        1 => (true, false),
        _ => (false, true),
    };
    PatFlags {
        case,
        word,
        whole_line,
        fixed: rng.chance(1, 8),
        term,
        unicode: !rng.chance(1, 10),
        multiline: false,
        dotall: false,
    }
}

pub fn gen_fixed(rng: &mut Rng) -> String {
    let metas = [".", "(", "*", "[a]", "+", "\\", "$", "^", "|", "a|b"];
    let n = rng.range(1, 4);
    let mut s = String::new();
    for _ in 0..n {
        if rng.chance(1, 3) {
            s.push_str(rng.pick(&metas));
        } else {
            let l = rng.pick(patgen::LITS);
            if !l.starts_with('\\') {
                s.push_str(l);
            } else {
                s.push('q');
            }
        }
    }
    s
}

/// The HIR of the user's pattern as written (wrapped as documented) and the
/// final HIR the matcher compiles, both used only to *draw lines from*.
pub fn sampling_hirs(
    patterns: &[String],
    flags: &PatFlags,
    oracle: &Oracle,
) -> Vec<Hir> {
    let mut hirs = vec![];
    if let Ok((h, _)) = oracle::matcher_builder(flags).verif_describe(patterns)
    {
        hirs.push(h);
    }
    let ci = oracle::oracle_case(patterns, flags).unwrap_or(false);
    let mut p = regex_syntax::ParserBuilder::new();
    p.multi_line(true)
        .crlf(flags.term == Term::Crlf)
        .case_insensitive(ci)
        .unicode(flags.unicode)
        .utf8(false);
    if let Ok(h) = p.build().parse(&oracle.pattern) {
        hirs.push(h);
    }
    hirs
}

pub fn gen_case(rng: &mut Rng, corpus: &[String]) -> Option<Case01> {
    let flags = gen_flags(rng);
    let npat = if rng.chance(1, 4) { rng.range(2, 3) } else { 1 };
    let mut patterns = vec![];
    for _ in 0..npat {
        let p = if flags.fixed {
            gen_fixed(rng)
        } else {
            patgen::gen_any(rng, corpus)
        };
        if !flags.fixed && patgen::excluded(&p) {
            return None;
        }
        patterns.push(p);
    }
    // Several patterns that are "the same up to something": equal up to
    // letter case (`\S` / `\s`, `\W` / `\w`, `A` / `a`: different meanings),
    // or literally equal; each of them counts.
    if patterns.len() >= 2 && rng.chance(1, 3) {
        let first = patterns[0].clone();
        let swapped: String = first
            .chars()
            .map(|c| {
                if c.is_ascii_lowercase() {
                    c.to_ascii_uppercase()
                } else if c.is_ascii_uppercase() {
                    c.to_ascii_lowercase()
                } else {
                    c
                }
            })
            .collect();
        // ... or one is a proper prefix of the other (`foo`, `foobar`): under
        // -w / -x the longer one matches lines the shorter one does not
        let variant = match rng.below(6) {
            0 => first,
            1 | 2 => format!("{}{}", first, rng.pick(&["bar", "x", "1", "ab"])),
            3 if first.chars().count() > 1 && first.is_ascii() => first[..first.len() - 1].to_string(),
            _ => swapped,
        };
        if flags.fixed || !patgen::excluded(&variant) {
            let k = patterns.len() - 1;
            patterns[k] = variant;
        }
    }
    // An empty pattern among the others (an empty line in a pattern file):
    // it matches every line on its own, but not under -x / -w, where the
    // patterns listed after it still count.
    if patterns.len() >= 2 && rng.chance(1, 6) {
        let at = rng.below(patterns.len());
        patterns[at] = String::new();
    }
    // Cheap pre-check so that rejected patterns do not cost an input.
    if oracle::build_matcher(&patterns, &flags).is_err() {
        return Some(Case01 { patterns, flags, input: vec![] });
    }
    let orc = match Oracle::build(&patterns, &flags) {
        Ok(o) => o,
        Err(_) => return Some(Case01 { patterns, flags, input: vec![] }),
    };
    let hirs = sampling_hirs(&patterns, &flags, &orc);
    let refs: Vec<&Hir> = hirs.iter().collect();
    let nlines = match rng.weighted(&[20, 6, 1]) {
        0 => rng.range(1, 12),
        1 => rng.range(13, 60),
        _ => rng.range(61, 400),
    };
    let mut input = inputgen::gen_input(rng, &refs, flags.term, nlines);
    // An input that starts with a byte-order mark is searched as its
    // transcoding (C17); keep C01's inputs out of that class.
    if input.starts_with(b"\xef\xbb\xbf")
        || input.starts_with(b"\xff\xfe")
        || input.starts_with(b"\xfe\xff")
    {
        input.insert(0, b'x');
    }
    Some(Case01 { patterns, flags, input })
}

fn matched_offsets(log: &[Event]) -> Vec<u64> {
    log.iter()
        .filter_map(|e| match e {
            Event::Matched { off, .. } => Some(*off),
            _ => None,
        })
        .collect()
}

/// Returns true if the case was non-trivial.
pub fn check_case(case: &Case01, rng_cap: usize, rep: &mut Report) -> bool {
    rep.evaluations += 1;
    let matcher = match oracle::build_matcher(&case.patterns, &case.flags) {
        Ok(m) => m,
        Err(_) => {
            rep.count("patterns_rejected_by_builder");
            return false;
        }
    };
    let orc = match Oracle::build(&case.patterns, &case.flags) {
        Ok(o) => o,
        Err(_) => {
            rep.count("oracle_unsettled_or_failed");
            return false;
        }
    };
    let term = case.flags.term;
    let lines = split_lines(&case.input, term);
    let mask: Vec<bool> = lines
        .iter()
        .map(|l| orc.line_matches(&case.input[l.start..l.content_end]))
        .collect();
    let nm = mask.iter().filter(|&&m| m).count();
    let nontrivial = nm > 0 && nm < lines.len();
    rep.add("lines_judged", lines.len() as u64);
    rep.add("lines_matching", nm as u64);
    if nontrivial {
        let h = fnv_parts(&[
            case.patterns.join("\x01").as_bytes(),
            format!("{:?}", case.flags).as_bytes(),
            &case.input,
        ]);
        rep.nontrivial(h);
    }
    rep.count(&format!("term_{}", term.name()));
    if case.flags.word {
        rep.count("flag_w");
    }
    if case.flags.whole_line {
        rep.count("flag_x");
    }
    if case.flags.fixed {
        rep.count("flag_F");
    }
    if case.patterns.len() > 1 {
        rep.count("multi_pattern");
    }
    match case.flags.case {
        Case::Smart => rep.count("flag_S"),
        Case::Insensitive => rep.count("flag_i"),
        _ => {}
    }
    if let Ok((_, lits)) =
        oracle::matcher_builder(&case.flags).verif_describe(&case.patterns)
    {
        if lits.is_some() {
            rep.count("inner_literal_prefilter_active");
        }
    }

    let caps = [1usize, 2, 3, 5, 8, 13, 64, 4096];
    let cap = caps[rng_cap % caps.len()];
    let legs: Vec<(&str, SearchCfg, Leg)> = {
        let plain = SearchCfg::plain(term);
        let mut pass = plain.clone();
        pass.passthru = true;
        vec![
            ("default", plain.clone(), Leg::Slice),
            ("passthru", pass, Leg::Slice),
            (
                "reader",
                plain,
                Leg::Reader {
                    cap: Some(cap),
                    script: vec![],
                    tail: 1 + rng_cap % 7,
                    cycle: false,
                },
            ),
        ]
    };
    for invert in [false, true] {
        let expected: Vec<u64> = lines
            .iter()
            .zip(mask.iter())
            .filter(|(_, &m)| m != invert)
            .map(|(l, _)| l.start as u64)
            .collect();
        for (name, cfg, leg) in legs.iter() {
            let mut cfg = cfg.clone();
            cfg.invert = invert;
            let out = run_leg(&matcher, &cfg, leg, &case.input, None);
            rep.count("searches_run");
            if let Err(e) = &out.result {
                rep.violation(
                    &format!("C01:{}:search-error:{}", term.name(), name),
                    format!("search failed: {}", e),
                    || json!({"case": case.to_json(), "leg": name, "invert": invert}),
                );
                continue;
            }
            let got = matched_offsets(&out.log);
            rep.add("matched_events", got.len() as u64);
            if got != expected {
                let spurious: Vec<u64> = got
                    .iter()
                    .filter(|o| !expected.contains(o))
                    .copied()
                    .collect();
                let missed: Vec<u64> = expected
                    .iter()
                    .filter(|o| !got.contains(o))
                    .copied()
                    .collect();
                let dir = if !spurious.is_empty() && missed.is_empty() {
                    "spurious"
                } else if spurious.is_empty() {
                    "missed"
                } else {
                    "both"
                };
                // The line in question, for the witness.
                let woff = spurious.first().or(missed.first()).copied();
                let wline = woff.and_then(|o| {
                    lines.iter().find(|l| l.start as u64 == o).copied()
                });
                let detail = classify(case, &orc, wline, invert);
                let sig = if detail
                    == ":unicode-word-boundary-next-to-invalid-utf8"
                    || detail
                        == ":regex-engine-optimised-search-differs-from-nfa-simulation"
                {
                    format!("C01{}", detail)
                } else {
                    format!(
                        "C01:{}:{}:{}{}{}",
                        term.name(),
                        dir,
                        name,
                        if invert { ":inverted" } else { "" },
                        detail
                    )
                };
                rep.violation(
                    &sig,
                    format!(
                        "pattern {:?} flags {:?}: line at offset {:?} ({}) {} by {} leg",
                        case.patterns,
                        case.flags.cli_args(),
                        woff,
                        wline.map_or(String::new(), |l| esc_short(&case.input[l.start..l.end], 60)),
                        dir,
                        name
                    ),
                    || {
                        json!({
                            "case": case.to_json(), "leg": name,
                            "invert": invert, "cap": cap,
                            "expected_offsets": expected,
                            "got_offsets": got,
                        })
                    },
                );
            }
        }
    }
    rep.sample(|| {
        json!({
            "patterns": case.patterns, "flags": case.flags.cli_args(),
            "input": esc_short(&case.input, 120),
            "lines": lines.len(), "matching_lines": nm,
        })
    });
    nontrivial
}

/// Qualify a disagreement for the signature. The only qualifier computed is
/// whether the pattern has an (empty) match lying inside the line's
/// terminator under CRLF, which is the shape of the known CRLF defect.
fn classify(
    case: &Case01,
    orc: &Oracle,
    wline: Option<crate::model::Line>,
    _invert: bool,
) -> String {
    let l = match wline {
        Some(l) => l,
        None => return String::new(),
    };
    // Known regex-library defect: the optimised meta engine (what ripgrep's
    // matcher runs) and the plain NFA simulation of the same library give
    // different matches on this input, for the wrapped pattern or for
    // ripgrep's own final HIR.
    if orc.engine_disagrees(&case.input) {
        return ":regex-engine-optimised-search-differs-from-nfa-simulation"
            .into();
    }
    // Known regex-engine quirk: a Unicode word boundary assertion decodes
    // the preceding bytes; next to invalid UTF-8 its answer depends on bytes
    // further back (regex-automata's backward decoder accepts a shorter
    // valid character in front of a stray continuation byte). The verdict
    // on a line then depends on whether the regex sees the line alone or
    // inside the buffer. Recognised only when all three hold: the compiled
    // pattern has a Unicode word boundary, the bytes around the line are
    // not valid UTF-8, and evaluating the same reference regex on the line
    // *in its buffer context* flips the oracle's stand-alone verdict.
    if let Ok((hir, _)) =
        oracle::matcher_builder(&case.flags).verif_describe(&case.patterns)
    {
        if hir.properties().look_set().contains_word_unicode() {
            let from = l.start.saturating_sub(4);
            let region = &case.input[from..l.end];
            if std::str::from_utf8(region).is_err() {
                let alone = orc.line_matches(&case.input[l.start..l.content_end]);
                let in_ctx = orc
                    .re
                    .search(
                        &regex_automata::Input::new(&case.input[..])
                            .span(l.start..l.content_end),
                    )
                    .is_some();
                if alone != in_ctx {
                    return ":unicode-word-boundary-next-to-invalid-utf8"
                        .into();
                }
            }
        }
    }
    if case.flags.term != Term::Crlf {
        return String::new();
    }
    let full = &case.input[l.start..l.end];
    let clen = l.content_end - l.start;
    if clen == full.len() {
        return String::new();
    }
    // Is there a match that starts inside or right after the terminator
    // when the pattern sees the terminated line?
    let input = regex_automata::Input::new(full).span(clen..full.len());
    let term_match = orc.re.search(&input).map_or(false, |m| m.is_empty());
    let lf_only = full.len() - clen == 1;
    match (term_match, lf_only) {
        (true, false) => ":empty-match-inside-crlf-terminator".into(),
        (true, true) => ":empty-match-after-lf-only-terminator".into(),
        _ => String::new(),
    }
}

pub fn run(ctx: &Ctx) -> Report {
    let corpus = patgen::load_corpus();
    let n = ctx.cases(40_000, 800_000);
    crate::par_cases(ctx, 1, n, |rng, i, rep| {
        if let Some(case) = gen_case(rng, &corpus) {
            check_case(&case, i, rep);
        } else {
            rep.count("excluded_by_statement");
        }
    })
}

pub fn replay(v: &Value) -> Report {
    let mut rep = Report::new();
    let case = Case01::from_json(&v["case"]);
    let cap = v["cap"].as_u64().unwrap_or(0) as usize;
    let caps = [1usize, 2, 3, 5, 8, 13, 64, 4096];
    let idx = caps.iter().position(|&c| c == cap).unwrap_or(0);
    check_case(&case, idx, &mut rep);
    rep
}
