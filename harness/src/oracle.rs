//! The "does this line match" oracle (C01) and the construction of the
//! matcher under test exactly as `hiargs::matcher_rust` does it.
//!
//! The oracle wraps the user's pattern itself, following the documentation
//! of the flags, and asks Rust's regex engine whether the wrapped pattern has
//! a match inside a line's content taken as a stand-alone haystack. Rust's
//! regex engine is the specification of "the pattern matches"; everything
//! ripgrep wraps around it is under test.

use grep_regex::{RegexMatcher, RegexMatcherBuilder};
use regex_automata::{
    meta,
    nfa::thompson::{self, pikevm::PikeVM},
    util::syntax,
    Input, Match,
};
use std::sync::Mutex;
use regex_syntax::ast::{self, Ast};
use serde_json::{json, Value};

use crate::model::Term;

#[derive(Clone, Copy, Debug, PartialEq, Eq, Hash)]
pub enum Case {
    Sensitive,
    Insensitive,
    Smart,
}

#[derive(Clone, Debug, PartialEq, Eq, Hash)]
pub struct PatFlags {
    pub case: Case,
    pub word: bool,
    pub whole_line: bool,
    pub fixed: bool,
    pub term: Term,
    pub unicode: bool,
    /// multi-line search requested (`-U`): no line terminator on the matcher.
    pub multiline: bool,
    pub dotall: bool,
}

impl PatFlags {
    pub fn plain(term: Term) -> PatFlags {
        PatFlags {
            case: Case::Sensitive,
            word: false,
            whole_line: false,
            fixed: false,
            term,
            unicode: true,
            multiline: false,
            dotall: false,
        }
    }

    pub fn to_json(&self) -> Value {
        json!({
            "case": match self.case { Case::Sensitive => "s", Case::Insensitive => "i", Case::Smart => "S" },
            "word": self.word, "whole_line": self.whole_line,
            "fixed": self.fixed, "term": self.term.name(),
            "unicode": self.unicode, "multiline": self.multiline,
            "dotall": self.dotall,
        })
    }

    pub fn from_json(v: &Value) -> PatFlags {
        PatFlags {
            case: match v["case"].as_str().unwrap_or("s") {
                "i" => Case::Insensitive,
                "S" => Case::Smart,
                _ => Case::Sensitive,
            },
            word: v["word"].as_bool().unwrap_or(false),
            whole_line: v["whole_line"].as_bool().unwrap_or(false),
            fixed: v["fixed"].as_bool().unwrap_or(false),
            term: Term::from_name(v["term"].as_str().unwrap_or("lf")),
            unicode: v["unicode"].as_bool().unwrap_or(true),
            multiline: v["multiline"].as_bool().unwrap_or(false),
            dotall: v["dotall"].as_bool().unwrap_or(false),
        }
    }

    /// The equivalent rg command line flags.
    pub fn cli_args(&self) -> Vec<String> {
        let mut a = vec![];
        match self.case {
            Case::Sensitive => a.push("-s".to_string()),
            Case::Insensitive => a.push("-i".to_string()),
            Case::Smart => a.push("-S".to_string()),
        }
        if self.word {
            a.push("-w".into());
        }
        if self.whole_line {
            a.push("-x".into());
        }
        if self.fixed {
            a.push("-F".into());
        }
        match self.term {
            Term::Crlf => a.push("--crlf".into()),
            Term::Nul => a.push("--null-data".into()),
            Term::Lf => {}
        }
        if !self.unicode {
            a.push("--no-unicode".into());
        }
        if self.multiline {
            a.push("-U".into());
            if self.dotall {
                a.push("--multiline-dotall".into());
            }
        }
        a
    }
}

/// Build the matcher under test the way `hiargs::matcher_rust` does.
pub fn build_matcher(
    patterns: &[String],
    f: &PatFlags,
) -> Result<RegexMatcher, String> {
    let b = matcher_builder(f);
    b.build_many(patterns).map_err(|e| e.to_string())
}

pub fn matcher_builder(f: &PatFlags) -> RegexMatcherBuilder {
    let mut b = RegexMatcherBuilder::new();
    b.multi_line(true).unicode(f.unicode).octal(false).fixed_strings(f.fixed);
    match f.case {
        Case::Sensitive => b.case_insensitive(false),
        Case::Insensitive => b.case_insensitive(true),
        Case::Smart => b.case_smart(true),
    };
    if f.whole_line {
        b.whole_line(true);
    } else if f.word {
        b.word(true);
    }
    if f.multiline {
        b.dot_matches_new_line(f.dotall);
        if f.term == Term::Crlf {
            b.crlf(true).line_terminator(None);
        }
    } else {
        b.line_terminator(Some(b'\n')).dot_matches_new_line(false);
        if f.term == Term::Crlf {
            b.crlf(true);
        }
        if f.term == Term::Nul {
            b.line_terminator(Some(0));
        }
    }
    b
}

/// Documented smart-case rule, re-implemented over the regex-syntax AST:
/// case-insensitive iff the pattern contains at least one literal and none
/// of its literals is uppercase.
pub fn smart_case_insensitive(pattern: &str) -> Option<bool> {
    let ast = ast::parse::Parser::new().parse(pattern).ok()?;
    let mut any = false;
    let mut upper = false;
    walk_ast(&ast, &mut any, &mut upper);
    Some(any && !upper)
}

fn lit(c: char, any: &mut bool, upper: &mut bool) {
    *any = true;
    if c.is_uppercase() {
        *upper = true;
    }
}

fn walk_ast(a: &Ast, any: &mut bool, upper: &mut bool) {
    match a {
        Ast::Empty(_) | Ast::Flags(_) | Ast::Dot(_) | Ast::Assertion(_) => {}
        Ast::ClassUnicode(_) | Ast::ClassPerl(_) => {}
        Ast::Literal(l) => lit(l.c, any, upper),
        Ast::ClassBracketed(c) => walk_set(&c.kind, any, upper),
        Ast::Repetition(r) => walk_ast(&r.ast, any, upper),
        Ast::Group(g) => walk_ast(&g.ast, any, upper),
        Ast::Alternation(x) => {
            for s in &x.asts {
                walk_ast(s, any, upper)
            }
        }
        Ast::Concat(x) => {
            for s in &x.asts {
                walk_ast(s, any, upper)
            }
        }
    }
}

fn walk_set(s: &ast::ClassSet, any: &mut bool, upper: &mut bool) {
    match s {
        ast::ClassSet::Item(i) => walk_item(i, any, upper),
        ast::ClassSet::BinaryOp(op) => {
            walk_set(&op.lhs, any, upper);
            walk_set(&op.rhs, any, upper);
        }
    }
}

fn walk_item(i: &ast::ClassSetItem, any: &mut bool, upper: &mut bool) {
    match i {
        ast::ClassSetItem::Literal(l) => lit(l.c, any, upper),
        ast::ClassSetItem::Range(r) => {
            lit(r.start.c, any, upper);
            lit(r.end.c, any, upper);
        }
        ast::ClassSetItem::Bracketed(b) => walk_set(&b.kind, any, upper),
        ast::ClassSetItem::Union(u) => {
            for x in &u.items {
                walk_item(x, any, upper)
            }
        }
        _ => {}
    }
}

/// The user's patterns wrapped as documented, as one regex string.
pub fn wrapped_pattern(patterns: &[String], f: &PatFlags) -> String {
    let alts: Vec<String> = patterns
        .iter()
        .map(|p| {
            if f.fixed {
                format!("(?:{})", regex_syntax::escape(p))
            } else {
                format!("(?:{})", p)
            }
        })
        .collect();
    let joined = alts.join("|");
    if f.whole_line {
        format!("^(?:{})$", joined)
    } else if f.word {
        format!("\\b{{start-half}}(?:{})\\b{{end-half}}", joined)
    } else {
        joined
    }
}

/// Decide case-insensitivity for the oracle. Returns None when the smart
/// case rule is not settled by the documentation for this set of patterns
/// (the individual patterns disagree), in which case the case is skipped.
pub fn oracle_case(patterns: &[String], f: &PatFlags) -> Option<bool> {
    match f.case {
        Case::Sensitive => Some(false),
        Case::Insensitive => Some(true),
        Case::Smart => {
            let mut answer: Option<bool> = None;
            for p in patterns {
                let p2 = if f.fixed {
                    regex_syntax::escape(p)
                } else {
                    p.clone()
                };
                let a = smart_case_insensitive(&p2)?;
                match answer {
                    None => answer = Some(a),
                    Some(prev) if prev != a => return None,
                    _ => {}
                }
            }
            answer
        }
    }
}

/// The reference regex. The answers come from the PikeVM, the plain NFA
/// simulation of regex-automata (no literal optimisations, no reverse
/// searches, no DFAs): the same pattern compiled the same way, run by the
/// simplest engine there is. The optimised `meta::Regex` - what ripgrep's
/// matcher is built on - is kept only to recognise disagreements *inside*
/// the regex library (see `engine_disagrees`).
pub struct Engine {
    vm: PikeVM,
    cache: Mutex<regex_automata::nfa::thompson::pikevm::Cache>,
    pub meta: meta::Regex,
}

impl Engine {
    pub fn search(&self, input: &Input<'_>) -> Option<Match> {
        let mut cache = self.cache.lock().unwrap();
        self.vm.find(&mut cache, input.clone())
    }

    pub fn is_match(&self, haystack: &[u8]) -> bool {
        let mut cache = self.cache.lock().unwrap();
        self.vm.is_match(&mut cache, Input::new(haystack))
    }
}

pub struct Oracle {
    pub re: Engine,
    pub term: Term,
    pub pattern: String,
    /// ripgrep's own final HIR (hook `verif_describe`) compiled twice by the
    /// regex library: optimised engine configured as `ConfiguredHIR::to_regex`
    /// does, and the NFA simulation. Only used by `engine_disagrees`.
    pub rg_hir: Option<Engine>,
}

impl Oracle {
    pub fn build(patterns: &[String], f: &PatFlags) -> Result<Oracle, String> {
        let ci = oracle_case(patterns, f)
            .ok_or_else(|| "smart case unsettled".to_string())?;
        let pattern = wrapped_pattern(patterns, f);
        let syn = syntax::Config::new()
            .multi_line(true)
            .crlf(f.term == Term::Crlf)
            .case_insensitive(ci)
            .unicode(f.unicode)
            .dot_matches_new_line(f.multiline && f.dotall)
            .utf8(false);
        let vm = PikeVM::builder()
            .syntax(syn.clone())
            .thompson(
                thompson::Config::new()
                    .utf8(false)
                    .nfa_size_limit(Some(50 * (1 << 20))),
            )
            .build(&pattern)
            .map_err(|e| e.to_string())?;
        let cache = Mutex::new(vm.create_cache());
        let re = meta::Regex::builder()
            .syntax(syn)
            .configure(
                meta::Config::new()
                    .utf8_empty(false)
                    .nfa_size_limit(Some(50 * (1 << 20)))
                    .hybrid_cache_capacity(8 * (1 << 20)),
            )
            .build(&pattern)
            .map_err(|e| e.to_string())?;
        let rg_hir = matcher_builder(f)
            .verif_describe(patterns)
            .ok()
            .and_then(|(hir, _)| {
                let nfa = thompson::Compiler::new()
                    .configure(thompson::Config::new().utf8(false))
                    .build_from_hir(&hir)
                    .ok()?;
                let vm = PikeVM::new_from_nfa(nfa).ok()?;
                let cache = Mutex::new(vm.create_cache());
                let meta = meta::Regex::builder()
                    .configure(
                        meta::Config::new()
                            .utf8_empty(false)
                            .onepass_size_limit(Some(10 * (1 << 20)))
                            .dfa_size_limit(Some(1 << 20))
                            .dfa_state_limit(Some(1_000)),
                    )
                    .build_from_hir(&hir)
                    .ok()?;
                Some(Engine { vm, cache, meta })
            });
        Ok(Oracle {
            re: Engine { vm, cache, meta: re },
            term: f.term,
            pattern,
            rg_hir,
        })
    }

    /// Known finding C01:unicode-word-boundary-next-to-invalid-utf8, as a
    /// predicate on (pattern, input): the pattern has a Unicode word boundary,
    /// the input is not valid UTF-8, and for some line the reference regex
    /// answers differently (match or not, or where) when it sees the line
    /// alone than when it sees it inside the input.
    pub fn word_boundary_context_dependent(
        &self,
        patterns: &[String],
        f: &PatFlags,
        input: &[u8],
    ) -> bool {
        if std::str::from_utf8(input).is_ok() {
            return false;
        }
        let uw = matcher_builder(f)
            .verif_describe(patterns)
            .map(|(h, _)| h.properties().look_set().contains_word_unicode())
            .unwrap_or(false);
        if !uw {
            return false;
        }
        for l in crate::model::split_lines(input, self.term) {
            let content = &input[l.start..l.content_end];
            let alone = self.re.search(&Input::new(content)).map(|m| m.range());
            let in_ctx = self
                .re
                .search(&Input::new(input).span(l.start..l.content_end))
                .map(|m| (m.start() - l.start)..(m.end() - l.start));
            if alone != in_ctx {
                return true;
            }
        }
        false
    }

    /// Do the optimised engine (meta::Regex) and the plain NFA simulation
    /// give different successive matches somewhere in `haystack`, searched
    /// as a whole and line by line? Then the *regex library* is inconsistent
    /// with itself on this (pattern, input): the defect recorded as
    /// `C01:regex-engine-optimised-search-differs-from-nfa-simulation`.
    pub fn engine_disagrees(&self, haystack: &[u8]) -> bool {
        let mut engines = vec![&self.re];
        if let Some(e) = &self.rg_hir {
            engines.push(e);
        }
        for e in engines {
            if Self::iter_differs(e, haystack, 0, haystack.len()) {
                return true;
            }
            for l in crate::model::split_lines(haystack, self.term) {
                let c = &haystack[l.start..l.content_end];
                if Self::iter_differs(e, c, 0, c.len()) {
                    return true;
                }
                // the line seen inside the buffer, as the searcher's slow
                // path (span = the line) and fast path (span = the rest of
                // the buffer) present it
                if Self::iter_differs(e, haystack, l.start, l.content_end) {
                    return true;
                }
                // the fast path searches from the line start to the end of
                // the buffer: a match the optimised engine reports there must
                // be confirmed by the NFA simulation anchored at its start
                // (matches the optimised engine misses are caught above)
                let rest = Input::new(haystack).span(l.start..haystack.len());
                let mm = e.meta.search(&rest);
                // ... and the search itself: what the optimised engine finds
                // first from this line's start is what the NFA simulation
                // finds first from there (whether a match exists *in this
                // line* can depend on the text after it: `(?:abc)*a` searched
                // in "xabcxa" from 0 is reported at 5..6 instead of 1..2)
                if e.search(&rest).map(|x| x.range()) != mm.map(|m| m.range()) {
                    return true;
                }
                if mm.map(|m| m.end())
                    != e.meta.search_half(&rest).map(|m| m.offset())
                    || mm.is_some() != e.meta.is_match(rest.clone())
                {
                    return true;
                }
                if let Some(m) = mm {
                    if m.start() <= l.content_end {
                        let anch = Input::new(haystack)
                            .span(m.start()..haystack.len())
                            .anchored(regex_automata::Anchored::Yes);
                        if e.search(&anch).map(|x| x.range()) != Some(m.range()) {
                            return true;
                        }
                    }
                }
            }
        }
        false
    }

    fn iter_differs(e: &Engine, h: &[u8], start: usize, end: usize) -> bool {
        let mut at = start;
        let mut steps = 0;
        while at <= end && steps < 10_000 {
            steps += 1;
            let input = Input::new(h).span(at..end);
            let a = e.search(&input);
            let b = e.meta.search(&input);
            match (a, b) {
                (None, None) => return false,
                (Some(x), Some(y)) if x.range() == y.range() => {
                    at = if x.is_empty() { x.end() + 1 } else { x.end() };
                }
                _ => return true,
            }
        }
        false
    }

    /// Does the pattern match somewhere in this line's content (terminator
    /// already removed)? Look-around is evaluated against the content. Under
    /// CRLF the matcher is documented never to produce a match containing
    /// `\r`, so a match must lie within a `\r`-free stretch of the content.
    pub fn line_matches(&self, content: &[u8]) -> bool {
        if self.term != Term::Crlf || !content.contains(&b'\r') {
            return self.re.is_match(content);
        }
        let mut start = 0;
        loop {
            let end = content[start..]
                .iter()
                .position(|&b| b == b'\r')
                .map_or(content.len(), |i| start + i);
            let input = Input::new(content).span(start..end);
            if self.re.search(&input).is_some() {
                return true;
            }
            if end >= content.len() {
                return false;
            }
            start = end + 1;
        }
    }
}
