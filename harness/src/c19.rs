//! C19 — replacement output equals the regex library's replace-all of each
//! matching line. This module generates the cases and computes the library's
//! answer; the comparison with rg's output is done by the CLI monitor.

use regex::bytes::{Regex, RegexBuilder};
use serde_json::{json, Value};

use crate::{
    model::{split_lines, Term},
    oracle::{self, Case, PatFlags},
    patgen,
    report::esc,
    rng::Rng,
};

pub const GROUP_PATTERNS: &[&str] = &[
    "(a)(b)?",
    // whole-line matches
    "^(.*)()$",
    "(?P<all>.+)",
    "^(foo|bar|a|ab)$",
    "(?P<x>\\w+)\\s+(?P<y>\\w+)",
    "(a|(b))c",
    "(x*)",
    "(\\d+)-(\\d+)",
    "(?P<w>foo|bar)",
    "((a)b)+",
    "(a)|b",
    "()",
    "(?P<n>a*)b",
    "([a-c])([a-c])",
    "(foo)(bar)?",
    "(?P<x>o+)",
    "(\\w)(\\w)?(\\w)?",
    "(?P<y>[A-Z])\\w*",
    "(^|\\s)(\\w+)",
    "(\\w+)$",
    "\\b(\\w)(\\w*)\\b",
    "(?:(a)|(b)|(c))+",
    "(?P<x>a)(?P<y>b)?(?P<w>c)?",
];

pub const TEMPLATE_PIECES: &[&str] = &[
    "$1", "${1}", "$2", "$0", "$x", "${x}", "$y", "$w", "$n", "$$", "$", "X",
    "-", "$1a", "${1}a", "$9", "$nosuch", "${nosuch}", " ", "$1$2", "<", ">",
    "${2}", "$3", "${0}", "$$1", "[$0]", "$x$y", "\\", "${", "}",
];

/// Braced references with characters outside [0-9A-Za-z_]: the known
/// interpolation divergence.
pub const ODD_BRACED: &[&str] = &["${a.b}", "${ 1}", "${}", "${x-y}", "${1 }"];

pub fn gen_template(rng: &mut Rng) -> String {
    // the empty template (deleting the matches) and templates that only
    // refer to groups that may be empty: a line can be replaced by nothing
    if rng.chance(1, 10) {
        return rng.pick(&["", "$2", "${9}", "$nosuch"]).to_string();
    }
    let n = rng.range(1, 4);
    let mut t = String::new();
    for _ in 0..n {
        if rng.chance(1, 40) {
            t.push_str(rng.pick(ODD_BRACED));
        } else {
            t.push_str(rng.pick(TEMPLATE_PIECES));
        }
    }
    t
}

const WORDS: &[&[u8]] = &[
    b"a", b"b", b"ab", b"abc", b"foo", b"bar", b"foobar", b" ", b"12-34", b"x",
    b"xx", b"c", b"Aa", b"Bcd", b"o", b"oo", b"ac", b"bc", b"7", b"-", b"aab",
    "é".as_bytes(), b"abab", b"z",
];

pub fn gen_input(rng: &mut Rng, term: Term, nlines: usize) -> Vec<u8> {
    let mut out = vec![];
    for i in 0..nlines {
        for _ in 0..rng.below(6) {
            out.extend_from_slice(rng.pick(WORDS));
        }
        if i + 1 == nlines && rng.chance(1, 4) {
            break;
        }
        match term {
            Term::Crlf => out.extend_from_slice(b"\r\n"),
            _ => out.push(b'\n'),
        }
    }
    out
}

pub fn library_regex(pattern: &str, f: &PatFlags) -> Option<Regex> {
    let ci = oracle::oracle_case(&[pattern.to_string()], f)?;
    let wrapped = oracle::wrapped_pattern(&[pattern.to_string()], f);
    RegexBuilder::new(&wrapped)
        .multi_line(true)
        .case_insensitive(ci)
        .unicode(f.unicode)
        .crlf(f.term == Term::Crlf)
        .dot_matches_new_line(f.multiline && f.dotall)
        .build()
        .ok()
}

pub fn gen_case(rng: &mut Rng) -> Option<Value> {
    let term = if rng.chance(1, 4) { Term::Crlf } else { Term::Lf };
    let flags = PatFlags {
        case: if rng.chance(1, 5) { Case::Insensitive } else { Case::Sensitive },
        word: rng.chance(1, 10),
        whole_line: false,
        fixed: false,
        term,
        unicode: true,
        multiline: false,
        dotall: false,
    };
    let pattern = if rng.chance(3, 4) {
        rng.pick(GROUP_PATTERNS).to_string()
    } else {
        let b = rng.range(2, 8);
        patgen::gen(rng, b)
    };
    if patgen::excluded(&pattern) || pattern.contains('\0') {
        return None;
    }
    if oracle::build_matcher(&[pattern.clone()], &flags).is_err() {
        return None;
    }
    let re = library_regex(&pattern, &flags)?;
    let template = gen_template(rng);
    let nlines = rng.range(1, 12);
    let input = gen_input(rng, term, nlines);
    if input.is_empty() {
        return None;
    }
    // "the library" must have one answer: skip inputs on which its optimised
    // engine and its NFA simulation disagree (recorded under C01)
    if let Ok(orc) = oracle::Oracle::build(&[pattern.clone()], &flags) {
        if orc.engine_disagrees(&input) {
            return None;
        }
    }
    let lines = split_lines(&input, term);
    // ripgrep's reading of a braced reference with an odd name (the recorded
    // finding): the reference stands for itself
    let alt_template = literalise_odd(&template);
    let mut out_lines = vec![];
    for (i, l) in lines.iter().enumerate() {
        let content = &input[l.start..l.content_end];
        let matched = re.is_match(content);
        let replaced = re.replace_all(content, template.as_bytes());
        let replaced_alt = re.replace_all(content, alt_template.as_bytes());
        let mut exps = vec![];
        let mut exps_alt = vec![];
        let mut first = None;
        for caps in re.captures_iter(content) {
            let m = caps.get(0).unwrap();
            if first.is_none() {
                first = Some(m.start());
            }
            let mut dst = vec![];
            caps.expand(template.as_bytes(), &mut dst);
            exps.push(esc(&dst));
            let mut dst = vec![];
            caps.expand(alt_template.as_bytes(), &mut dst);
            exps_alt.push(esc(&dst));
        }
        out_lines.push(json!({
            "n": i + 1,
            "matched": matched,
            "content": esc(content),
            "replaced": esc(&replaced),
            "replaced_alt": esc(&replaced_alt),
            "expansions_alt": exps_alt,
            "expansions": exps,
            "first_match_start": first,
            "terminated": l.content_end < l.end,
        }));
    }
    // multi-line variant: library replace-all over the whole input with a
    // matcher that may cross lines
    let mut mflags = flags.clone();
    mflags.multiline = true;
    let ml_re = library_regex(&pattern, &mflags);
    // rg prints whole lines: when a match swallows the terminator that ends
    // its block of lines, the printed block gets a terminator again. That is
    // outside what replace_all over the whole input can express, so such
    // cases are not compared in the multi-line mode.
    let swallows_terminator = ml_re.as_ref().map_or(false, |re| {
        re.find_iter(&input).any(|m| m.as_bytes().ends_with(b"\n"))
    });
    let whole_of = |tmpl: &str| -> Option<String> {
        if swallows_terminator {
            return None;
        }
        ml_re.as_ref().map(|re| {
            let mut out = vec![];
            let mut last = 0;
            for caps in re.captures_iter(&input) {
                let m = caps.get(0).unwrap();
                if m.is_empty() && m.start() == input.len() && input.ends_with(b"\n") {
                    continue;
                }
                out.extend_from_slice(&input[last..m.start()]);
                caps.expand(tmpl.as_bytes(), &mut out);
                last = m.end();
            }
            out.extend_from_slice(&input[last..]);
            esc(&out)
        })
    };
    let whole_alt = whole_of(&alt_template);
    let whole = if swallows_terminator {
        None
    } else {
        ml_re.clone().map(|re| {
            // replace_all, except that an empty match right after the final
            // line terminator is on no line and therefore not printed
            let mut out = vec![];
            let mut last = 0;
            for caps in re.captures_iter(&input) {
                let m = caps.get(0).unwrap();
                if m.is_empty() && m.start() == input.len() && input.ends_with(b"\n") {
                    continue;
                }
                out.extend_from_slice(&input[last..m.start()]);
                caps.expand(template.as_bytes(), &mut out);
                last = m.end();
            }
            out.extend_from_slice(&input[last..]);
            esc(&out)
        })
    };
    let odd = ODD_BRACED.iter().any(|o| template.contains(o))
        || has_odd_brace(&template);
    Some(json!({
        "pattern": pattern,
        "args": flags.cli_args(),
        "template": template,
        "odd_braced_reference": odd,
        "input": esc(&input),
        "term": term.name(),
        "lines": out_lines,
        "whole_input_replaced": whole,
        "whole_input_replaced_alt": whole_alt,
    }))
}

/// The template with every `${...}` of an odd name made literal (`$${...}`).
pub fn literalise_odd(t: &str) -> String {
    let b = t.as_bytes();
    let mut out = String::new();
    let mut i = 0;
    while i < b.len() {
        if b[i] == b'$' && i + 1 < b.len() && b[i + 1] == b'$' {
            out.push_str("$$");
            i += 2;
            continue;
        }
        if b[i] == b'$' && i + 1 < b.len() && b[i + 1] == b'{' {
            if let Some(j) = b[i + 2..].iter().position(|&c| c == b'}') {
                let inner = &b[i + 2..i + 2 + j];
                if inner.is_empty()
                    || inner.iter().any(|c| !(c.is_ascii_alphanumeric() || *c == b'_'))
                {
                    // only the `$` becomes literal; what follows it is
                    // scanned again (it may hold further references)
                    out.push_str("$$");
                    i += 1;
                    continue;
                }
            }
        }
        // (templates are ASCII apart from literal text; copy by char)
        let ch = t[i..].chars().next().unwrap();
        out.push(ch);
        i += ch.len_utf8();
    }
    out
}

/// `${...}` whose content has a byte outside [0-9A-Za-z_] (or is empty).
pub fn has_odd_brace(t: &str) -> bool {
    let b = t.as_bytes();
    let mut i = 0;
    while i + 1 < b.len() {
        if b[i] == b'$' && b[i + 1] == b'$' {
            i += 2;
            continue;
        }
        if b[i] == b'$' && b[i + 1] == b'{' {
            if let Some(j) = b[i + 2..].iter().position(|&c| c == b'}') {
                let inner = &b[i + 2..i + 2 + j];
                if inner.is_empty()
                    || inner.iter().any(|c| !(c.is_ascii_alphanumeric() || *c == b'_'))
                {
                    return true;
                }
            }
        }
        i += 1;
    }
    false
}
