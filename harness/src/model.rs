//! Reference models written from the documentation: a line splitter, the
//! executable grep model (matching lines -> context windows -> separators ->
//! numbering) and the whole-input multi-line model.

use grep_matcher::LineTerminator;

use crate::sinklog::Event;

#[derive(Clone, Copy, Debug, PartialEq, Eq, Hash)]
pub enum Term {
    Lf,
    Crlf,
    Nul,
}

impl Term {
    pub fn byte(self) -> u8 {
        match self {
            Term::Lf | Term::Crlf => b'\n',
            Term::Nul => 0,
        }
    }
    pub fn to_grep(self) -> LineTerminator {
        match self {
            Term::Lf => LineTerminator::byte(b'\n'),
            Term::Crlf => LineTerminator::crlf(),
            Term::Nul => LineTerminator::byte(0),
        }
    }
    pub fn name(self) -> &'static str {
        match self {
            Term::Lf => "lf",
            Term::Crlf => "crlf",
            Term::Nul => "nul",
        }
    }
    pub fn from_name(s: &str) -> Term {
        match s {
            "crlf" => Term::Crlf,
            "nul" => Term::Nul,
            _ => Term::Lf,
        }
    }
}

/// A line of the input: `start..end` includes the terminator (if present),
/// `start..content_end` is the content with the terminator removed.
#[derive(Clone, Copy, Debug, PartialEq, Eq)]
pub struct Line {
    pub start: usize,
    pub end: usize,
    pub content_end: usize,
}

/// Split on the terminator byte. The content of a line is the line minus a
/// trailing terminator byte and, under CRLF, minus a `\r` immediately before
/// that `\n`.
pub fn split_lines(input: &[u8], term: Term) -> Vec<Line> {
    let tb = term.byte();
    let mut out = Vec::new();
    let mut start = 0;
    while start < input.len() {
        let end = match input[start..].iter().position(|&b| b == tb) {
            Some(i) => start + i + 1,
            None => input.len(),
        };
        let mut content_end = end;
        if input[end - 1] == tb {
            content_end -= 1;
            if term == Term::Crlf
                && content_end > start
                && input[content_end - 1] == b'\r'
            {
                content_end -= 1;
            }
        }
        out.push(Line { start, end, content_end });
        start = end;
    }
    out
}

#[derive(Clone, Debug)]
pub struct GrepCfg {
    pub term: Term,
    pub after: usize,
    pub before: usize,
    pub passthru: bool,
    pub invert: bool,
    pub line_number: bool,
    pub stop_on_nonmatch: bool,
}

/// Expected event with a wildcard for the context kind where the
/// documentation does not settle it (a line that is both within A after one
/// match and within B before the next).
#[derive(Clone, Debug, PartialEq, Eq)]
pub enum Expect {
    Exact(Event),
    /// Context line that qualifies as both after- and before-context.
    ContextEither { bytes: Vec<u8>, off: u64, line: Option<u64> },
    /// finish with an unconstrained byte count (search was cut short by
    /// stop_on_nonmatch; the statement only fixes it for complete searches).
    FinishAny,
}

impl Expect {
    pub fn matches(&self, ev: &Event) -> bool {
        match (self, ev) {
            (Expect::Exact(e), ev) => e == ev,
            (
                Expect::ContextEither { bytes, off, line },
                Event::Context { kind, bytes: b, off: o, line: l },
            ) => (*kind == 0 || *kind == 1) && bytes == b && off == o && line == l,
            (Expect::FinishAny, Event::Finish { binary: None, .. }) => true,
            _ => false,
        }
    }
    pub fn to_json(&self) -> serde_json::Value {
        match self {
            Expect::Exact(e) => e.to_json(),
            Expect::ContextEither { bytes, off, line } => serde_json::json!({
                "C": crate::report::esc(bytes), "kind": "before|after",
                "off": off, "line": line}),
            Expect::FinishAny => serde_json::json!({"finish": "any"}),
        }
    }
}

/// The executable grep model. `matched[i]` says whether line i's content
/// matches the pattern (before inversion).
pub fn grep_model(
    input: &[u8],
    lines: &[Line],
    matched: &[bool],
    cfg: &GrepCfg,
) -> Vec<Expect> {
    let mut sel: Vec<bool> =
        matched.iter().map(|&m| m != cfg.invert).collect();
    let mut n = lines.len();
    let mut cut = false;
    if cfg.stop_on_nonmatch {
        let mut seen = false;
        for i in 0..n {
            if sel[i] {
                seen = true;
            } else if seen {
                // The search stops once a non-matching line follows a
                // matching line. That line itself has been read and may
                // still be delivered as context.
                n = i + 1;
                cut = true;
                break;
            }
        }
    }
    sel.truncate(n);
    let (a, b) =
        if cfg.passthru { (0, 0) } else { (cfg.after, cfg.before) };
    let any_context = a > 0 || b > 0;

    let mut out = vec![Expect::Exact(Event::Begin)];
    let mut last_delivered: Option<usize> = None;
    // distance to the previous selected line
    let mut since_prev: Option<usize> = None;
    // next selected line at or after i
    let mut next_sel = vec![usize::MAX; n + 1];
    for i in (0..n).rev() {
        next_sel[i] = if sel[i] { i } else { next_sel[i + 1] };
    }
    for i in 0..n {
        let ln = lines[i];
        let bytes = input[ln.start..ln.end].to_vec();
        let off = ln.start as u64;
        let line = if cfg.line_number { Some(i as u64 + 1) } else { None };
        let mut ev: Option<Expect> = None;
        if sel[i] {
            ev = Some(Expect::Exact(Event::Matched { bytes, off, line }));
            since_prev = Some(0);
        } else {
            if let Some(d) = since_prev.as_mut() {
                *d += 1;
            }
            let is_after = since_prev.map_or(false, |d| d <= a) && a > 0;
            // When the search is cut by stop_on_nonmatch no later match
            // exists within the truncated input.
            let is_before = b > 0
                && next_sel[i] != usize::MAX
                && next_sel[i] - i <= b;
            if cfg.passthru {
                ev = Some(Expect::Exact(Event::Context {
                    kind: 2,
                    bytes,
                    off,
                    line,
                }));
            } else if is_after && is_before {
                ev = Some(Expect::ContextEither { bytes, off, line });
            } else if is_after {
                ev = Some(Expect::Exact(Event::Context {
                    kind: 1,
                    bytes,
                    off,
                    line,
                }));
            } else if is_before {
                ev = Some(Expect::Exact(Event::Context {
                    kind: 0,
                    bytes,
                    off,
                    line,
                }));
            }
        }
        if let Some(ev) = ev {
            if any_context {
                if let Some(p) = last_delivered {
                    if p + 1 != i {
                        out.push(Expect::Exact(Event::Break));
                    }
                }
            }
            out.push(ev);
            last_delivered = Some(i);
        }
    }
    if cut {
        out.push(Expect::FinishAny);
    } else {
        out.push(Expect::Exact(Event::Finish {
            byte_count: input.len() as u64,
            binary: None,
        }));
    }
    out
}

/// Compare an observed log with the model's stream. Returns the index of the
/// first difference.
pub fn compare(expect: &[Expect], got: &[Event]) -> Option<usize> {
    let n = expect.len().min(got.len());
    for i in 0..n {
        if !expect[i].matches(&got[i]) {
            return Some(i);
        }
    }
    if expect.len() != got.len() {
        return Some(n);
    }
    None
}

/// Flatten a log: every `Matched` / `Context` event that carries a block of
/// several lines is split into one event per line (line numbers and offsets
/// advanced accordingly). Used for multi-line searches, where the partition
/// into blocks is not part of the property.
pub fn flatten(log: &[Event], term: Term) -> Vec<Event> {
    let tb = term.byte();
    let mut out = Vec::new();
    for ev in log {
        match ev {
            Event::Matched { bytes, off, line } => {
                let mut o = *off;
                let mut l = *line;
                for piece in split_keep(bytes, tb) {
                    out.push(Event::Matched {
                        bytes: piece.to_vec(),
                        off: o,
                        line: l,
                    });
                    o += piece.len() as u64;
                    l = l.map(|x| x + 1);
                }
            }
            Event::Context { kind, bytes, off, line } => {
                let mut o = *off;
                let mut l = *line;
                for piece in split_keep(bytes, tb) {
                    out.push(Event::Context {
                        kind: *kind,
                        bytes: piece.to_vec(),
                        off: o,
                        line: l,
                    });
                    o += piece.len() as u64;
                    l = l.map(|x| x + 1);
                }
            }
            e => out.push(e.clone()),
        }
    }
    out
}

fn split_keep(bytes: &[u8], tb: u8) -> Vec<&[u8]> {
    let mut out = vec![];
    let mut s = 0;
    for (i, &b) in bytes.iter().enumerate() {
        if b == tb {
            out.push(&bytes[s..=i]);
            s = i + 1;
        }
    }
    if s < bytes.len() {
        out.push(&bytes[s..]);
    }
    out
}

/// Pure invariants that hold for every log regardless of the model:
/// begin first, offsets strictly increasing and non-overlapping, line numbers
/// strictly increasing, at most one finish and nothing after it.
pub fn log_invariants(log: &[Event]) -> Result<(), String> {
    if log.is_empty() {
        return Err("empty log".into());
    }
    if log[0] != Event::Begin {
        return Err("first event is not begin".into());
    }
    let mut last_end: Option<u64> = None;
    let mut last_line: Option<u64> = None;
    let mut finished = false;
    for (i, ev) in log.iter().enumerate() {
        if finished {
            return Err(format!("event {} after finish", i));
        }
        match ev {
            Event::Begin if i > 0 => {
                return Err(format!("second begin at {}", i))
            }
            Event::Matched { bytes, off, line }
            | Event::Context { bytes, off, line, .. } => {
                if let Some(e) = last_end {
                    if *off < e {
                        return Err(format!(
                            "event {} at offset {} overlaps previous end {}",
                            i, off, e
                        ));
                    }
                }
                if bytes.is_empty() {
                    return Err(format!("event {} delivers no bytes", i));
                }
                last_end = Some(off + bytes.len() as u64);
                if let (Some(p), Some(l)) = (last_line, line) {
                    if *l <= p {
                        return Err(format!(
                            "event {} line number {} not after {}",
                            i, l, p
                        ));
                    }
                }
                if line.is_some() {
                    last_line = *line;
                }
            }
            Event::Finish { .. } => finished = true,
            _ => {}
        }
    }
    Ok(())
}
