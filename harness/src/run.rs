//! Running the real searcher through its different strategies ("legs") with
//! the recording sink attached.

use std::{io::Write, path::PathBuf};

use grep_matcher::Matcher;
use grep_searcher::{BinaryDetection, Encoding, MmapChoice, SearcherBuilder};
use serde_json::{json, Value};

use crate::{
    model::{GrepCfg, Term},
    sinklog::{Event, LogError, LogSink, ReadOp, ScriptReader, Stop},
};

#[derive(Clone, Copy, Debug, PartialEq, Eq)]
pub enum Bin {
    None,
    Quit,
    Convert,
}

#[derive(Clone, Debug)]
pub struct SearchCfg {
    pub term: Term,
    pub after: usize,
    pub before: usize,
    pub passthru: bool,
    pub invert: bool,
    pub line_number: bool,
    pub stop_on_nonmatch: bool,
    pub multi_line: bool,
    pub binary: Bin,
    pub encoding: Option<String>,
    pub bom_sniffing: bool,
}

impl SearchCfg {
    pub fn plain(term: Term) -> SearchCfg {
        SearchCfg {
            term,
            after: 0,
            before: 0,
            passthru: false,
            invert: false,
            line_number: true,
            stop_on_nonmatch: false,
            multi_line: false,
            binary: Bin::None,
            encoding: None,
            bom_sniffing: true,
        }
    }

    pub fn grep_cfg(&self) -> GrepCfg {
        GrepCfg {
            term: self.term,
            after: self.after,
            before: self.before,
            passthru: self.passthru,
            invert: self.invert,
            line_number: self.line_number,
            stop_on_nonmatch: self.stop_on_nonmatch,
        }
    }

    pub fn to_json(&self) -> Value {
        json!({
            "term": self.term.name(), "after": self.after,
            "before": self.before, "passthru": self.passthru,
            "invert": self.invert, "line_number": self.line_number,
            "stop_on_nonmatch": self.stop_on_nonmatch,
            "multi_line": self.multi_line,
            "binary": match self.binary { Bin::None => "none", Bin::Quit => "quit", Bin::Convert => "convert" },
            "encoding": self.encoding, "bom_sniffing": self.bom_sniffing,
        })
    }

    pub fn from_json(v: &Value) -> SearchCfg {
        SearchCfg {
            term: Term::from_name(v["term"].as_str().unwrap_or("lf")),
            after: v["after"].as_u64().unwrap_or(0) as usize,
            before: v["before"].as_u64().unwrap_or(0) as usize,
            passthru: v["passthru"].as_bool().unwrap_or(false),
            invert: v["invert"].as_bool().unwrap_or(false),
            line_number: v["line_number"].as_bool().unwrap_or(true),
            stop_on_nonmatch: v["stop_on_nonmatch"].as_bool().unwrap_or(false),
            multi_line: v["multi_line"].as_bool().unwrap_or(false),
            binary: match v["binary"].as_str().unwrap_or("none") {
                "quit" => Bin::Quit,
                "convert" => Bin::Convert,
                _ => Bin::None,
            },
            encoding: v["encoding"].as_str().map(|s| s.to_string()),
            bom_sniffing: v["bom_sniffing"].as_bool().unwrap_or(true),
        }
    }

    pub fn builder(&self) -> SearcherBuilder {
        let mut b = SearcherBuilder::new();
        b.line_terminator(self.term.to_grep())
            .invert_match(self.invert)
            .line_number(self.line_number)
            .multi_line(self.multi_line)
            .after_context(self.after)
            .before_context(self.before)
            .passthru(self.passthru)
            .stop_on_nonmatch(self.stop_on_nonmatch)
            .bom_sniffing(self.bom_sniffing)
            .memory_map(MmapChoice::never());
        match self.binary {
            Bin::None => b.binary_detection(BinaryDetection::none()),
            Bin::Quit => b.binary_detection(BinaryDetection::quit(0)),
            Bin::Convert => b.binary_detection(BinaryDetection::convert(0)),
        };
        if let Some(ref label) = self.encoding {
            b.encoding(Some(Encoding::new(label).expect("encoding label")));
        }
        b
    }
}

#[derive(Clone, Debug)]
pub enum Leg {
    Slice,
    /// Incremental reader: roll buffer capacity (None = default 64 KiB),
    /// scripted read history, chunk size afterwards, cycle the script.
    Reader { cap: Option<usize>, script: Vec<ReadOp>, tail: usize, cycle: bool },
    /// Incremental reader with `heap_limit(Some(n))`.
    HeapLimit { limit: usize, tail: usize },
    /// `search_path` on a temporary file, without / with memory maps.
    File { mmap: bool },
}

impl Leg {
    pub fn name(&self) -> String {
        match self {
            Leg::Slice => "slice".into(),
            Leg::Reader { cap, script, tail, cycle } => format!(
                "reader(cap={:?},script={},tail={},cycle={})",
                cap,
                script.len(),
                tail,
                cycle
            ),
            Leg::HeapLimit { limit, tail } => {
                format!("heap_limit({},tail={})", limit, tail)
            }
            Leg::File { mmap } => format!("file(mmap={})", mmap),
        }
    }

    pub fn short(&self) -> &'static str {
        match self {
            Leg::Slice => "slice",
            Leg::Reader { .. } => "reader",
            Leg::HeapLimit { .. } => "heaplimit",
            Leg::File { mmap: true } => "mmap",
            Leg::File { mmap: false } => "file",
        }
    }

    pub fn to_json(&self) -> Value {
        match self {
            Leg::Slice => json!({"leg": "slice"}),
            Leg::Reader { cap, script, tail, cycle } => json!({
                "leg": "reader", "cap": cap, "tail": tail, "cycle": cycle,
                "script": script.iter().map(|op| match op {
                    ReadOp::Chunk(n) => json!(n),
                    ReadOp::Interrupted => json!("interrupted"),
                    ReadOp::Fail => json!("fail"),
                }).collect::<Vec<_>>(),
            }),
            Leg::HeapLimit { limit, tail } => {
                json!({"leg": "heaplimit", "limit": limit, "tail": tail})
            }
            Leg::File { mmap } => json!({"leg": "file", "mmap": mmap}),
        }
    }

    pub fn from_json(v: &Value) -> Leg {
        match v["leg"].as_str().unwrap_or("slice") {
            "reader" => Leg::Reader {
                cap: v["cap"].as_u64().map(|x| x as usize),
                tail: v["tail"].as_u64().unwrap_or(8192) as usize,
                cycle: v["cycle"].as_bool().unwrap_or(false),
                script: v["script"]
                    .as_array()
                    .map(|a| {
                        a.iter()
                            .map(|x| match x.as_str() {
                                Some("interrupted") => ReadOp::Interrupted,
                                Some(_) => ReadOp::Fail,
                                None => ReadOp::Chunk(
                                    x.as_u64().unwrap_or(1) as usize
                                ),
                            })
                            .collect()
                    })
                    .unwrap_or_default(),
            },
            "heaplimit" => Leg::HeapLimit {
                limit: v["limit"].as_u64().unwrap_or(0) as usize,
                tail: v["tail"].as_u64().unwrap_or(8192) as usize,
            },
            "file" => Leg::File { mmap: v["mmap"].as_bool().unwrap_or(false) },
            _ => Leg::Slice,
        }
    }
}

pub struct Outcome {
    pub log: Vec<Event>,
    pub result: Result<(), LogError>,
    pub read_calls: usize,
    pub calls_after_stop: usize,
}

thread_local! {
    static TMPFILE: std::cell::RefCell<Option<PathBuf>> = std::cell::RefCell::new(None);
}

pub fn scratch_dir() -> PathBuf {
    let base = std::env::var_os("RGMON_TMP")
        .map(PathBuf::from)
        .unwrap_or_else(std::env::temp_dir);
    let d = base.join(format!("rgmon-{}", std::process::id()));
    let _ = std::fs::create_dir_all(&d);
    d
}

pub fn cleanup_scratch() {
    let base = std::env::var_os("RGMON_TMP")
        .map(PathBuf::from)
        .unwrap_or_else(std::env::temp_dir);
    let d = base.join(format!("rgmon-{}", std::process::id()));
    let _ = std::fs::remove_dir_all(&d);
}

fn tmpfile() -> PathBuf {
    TMPFILE.with(|t| {
        let mut t = t.borrow_mut();
        if t.is_none() {
            let id = format!("{:?}", std::thread::current().id())
                .replace(|c: char| !c.is_ascii_digit(), "");
            *t = Some(scratch_dir().join(format!("f{}", id)));
        }
        t.clone().unwrap()
    })
}

/// A sink for the searches that only exist to give the searcher a past.
struct PriorSink {
    stop_at_first_match: bool,
}

impl grep_searcher::Sink for PriorSink {
    type Error = std::io::Error;
    fn matched(
        &mut self,
        _: &grep_searcher::Searcher,
        _: &grep_searcher::SinkMatch<'_>,
    ) -> Result<bool, std::io::Error> {
        Ok(!self.stop_at_first_match)
    }
}

/// Which past the searcher of a leg gets before the search that is judged:
/// 0 = none (a fresh searcher), 1 = a completed search of another input,
/// 2 = a search the sink stopped at its first match, 3 = a reader search that
/// failed after delivering part of an unterminated line, 4 = a completed
/// `search_slice` of an input with a byte order mark, 5 = a completed
/// `search_path` of another file, 6/7 = a completed search in another binary
/// detection mode followed by `set_binary_detection`. A `Searcher` is
/// documented to be reusable and ripgrep reuses one per thread: nothing of an
/// earlier search may show in a later one. Derived from the input so that a
/// replay takes the same path.
pub fn history_kind(input: &[u8], leg: &Leg) -> u64 {
    if std::env::var_os("VERIF_NO_HISTORY").is_some() {
        return 0;
    }
    if cfg!(miri) {
        // every search costs seconds in the interpreter: a past for three
        // cases in eight
        let k = crate::rng::fnv(input) % 8;
        return if k > 4 { 0 } else { k };
    }
    // (per strategy, not per read script: a fault-injection run and the
    // uninterrupted run it is compared with must share their history, e.g.
    // `read_to_end` issues a different number of reads into a buffer that
    // kept its capacity)
    let strategy = match leg {
        Leg::Slice => 1,
        Leg::Reader { .. } => 2,
        Leg::HeapLimit { .. } => 3,
        Leg::File { .. } => 4,
    };
    crate::rng::mix(&[crate::rng::fnv(input), strategy]) % 8
}

fn detection(b: Bin) -> BinaryDetection {
    match b {
        Bin::None => BinaryDetection::none(),
        Bin::Quit => BinaryDetection::quit(0),
        Bin::Convert => BinaryDetection::convert(0),
    }
}

/// The binary detection a searcher with history 6 or 7 is built with, before
/// it is switched to the wanted one (ripgrep switches per file: explicitly
/// named files are searched with `convert`, traversed ones with `quit`).
fn other_detection(b: Bin) -> BinaryDetection {
    match b {
        Bin::None => BinaryDetection::quit(0),
        Bin::Quit => BinaryDetection::convert(0),
        Bin::Convert => BinaryDetection::quit(0),
    }
}

fn give_history<M: Matcher>(
    searcher: &mut grep_searcher::Searcher,
    matcher: &M,
    kind: u64,
    term: Term,
    wanted: Bin,
) {
    let t: &[u8] = match term {
        Term::Lf => b"\n",
        Term::Crlf => b"\r\n",
        Term::Nul => b"\0",
    };
    let mut prior: Vec<u8> = vec![];
    for piece in [&b"m prior one"[..], b"zz prior two", b"m prior three xyz", b"prior four"] {
        prior.extend_from_slice(piece);
        prior.extend_from_slice(t);
    }
    prior.extend_from_slice(b"m prior tail without terminator");
    match kind {
        1 => {
            let mut rdr = ScriptReader::chunks(&prior, 7);
            let _ = searcher.search_reader(matcher, &mut rdr, PriorSink { stop_at_first_match: false });
        }
        2 => {
            let mut rdr = ScriptReader::chunks(&prior, 5);
            let _ = searcher.search_reader(matcher, &mut rdr, PriorSink { stop_at_first_match: true });
        }
        3 => {
            // three reads of 9 bytes, then a hard error in the middle of a line
            let mut rdr = ScriptReader::new(
                &prior,
                vec![ReadOp::Chunk(9), ReadOp::Chunk(9), ReadOp::Chunk(9), ReadOp::Fail],
                9,
                false,
            );
            let _ = searcher.search_reader(matcher, &mut rdr, PriorSink { stop_at_first_match: false });
        }
        4 => {
            // a slice that starts with a UTF-8 byte order mark: with BOM
            // sniffing on it takes the transcoding detour of `search_slice`
            let mut with_mark = b"\xEF\xBB\xBF".to_vec();
            with_mark.extend_from_slice(&prior);
            let _ = searcher.search_slice(matcher, &with_mark, PriorSink { stop_at_first_match: false });
        }
        5 => {
            let mut path = tmpfile();
            path.set_extension("prior");
            if std::fs::write(&path, &prior).is_ok() {
                let _ = searcher.search_path(matcher, &path, PriorSink { stop_at_first_match: false });
            }
        }
        6 | 7 => {
            // built for another detection mode (see `search_leg_then`), one
            // search in that mode (7: of data with a NUL byte in it), then
            // switched over
            if kind == 7 {
                prior.extend_from_slice(b" and\x00a NUL");
                prior.extend_from_slice(t);
                prior.extend_from_slice(b"m prior after the NUL");
                prior.extend_from_slice(t);
            }
            let mut rdr = ScriptReader::chunks(&prior, 13);
            let _ = searcher.search_reader(matcher, &mut rdr, PriorSink { stop_at_first_match: false });
            searcher.set_binary_detection(detection(wanted));
        }
        _ => {}
    }
}

/// Run one search with an arbitrary sink. Returns the search result and the
/// number of read calls the scripted reader served.
pub fn search_leg<M: Matcher, S: grep_searcher::Sink>(
    matcher: M,
    cfg: &SearchCfg,
    leg: &Leg,
    input: &[u8],
    sink: S,
) -> (Result<(), S::Error>, usize) {
    search_leg_then(matcher, cfg, leg, input, sink, &mut |_, _| {})
}

/// As `search_leg`; `after` is handed the searcher once the search has
/// returned (however it ended), to go on using it as ripgrep's workers do.
pub fn search_leg_then<M: Matcher, S: grep_searcher::Sink>(
    matcher: M,
    cfg: &SearchCfg,
    leg: &Leg,
    input: &[u8],
    sink: S,
    after: &mut dyn FnMut(&mut grep_searcher::Searcher, &M),
) -> (Result<(), S::Error>, usize) {
    let mut b = cfg.builder();
    let mut read_calls = 0;
    let hist = history_kind(input, leg);
    if hist >= 6 && !matches!(leg, Leg::HeapLimit { .. }) {
        b.binary_detection(other_detection(cfg.binary));
    }
    let result = match leg {
        Leg::Slice => {
            let mut searcher = b.build();
            give_history(&mut searcher, &matcher, hist, cfg.term, cfg.binary);
            let r = searcher.search_slice(&matcher, input, sink);
            after(&mut searcher, &matcher);
            r
        }
        Leg::Reader { cap, script, tail, cycle } => {
            b.verif_buffer_capacity(*cap);
            let mut rdr =
                ScriptReader::new(input, script.clone(), *tail, *cycle);
            let mut searcher = b.build();
            give_history(&mut searcher, &matcher, hist, cfg.term, cfg.binary);
            let r = searcher.search_reader(&matcher, &mut rdr, sink);
            read_calls = rdr.calls;
            after(&mut searcher, &matcher);
            r
        }
        Leg::HeapLimit { limit, tail } => {
            // (no history here: the prior input need not fit the limit)
            b.heap_limit(Some(*limit));
            let mut rdr = ScriptReader::chunks(input, *tail);
            let mut searcher = b.build();
            let r = searcher.search_reader(&matcher, &mut rdr, sink);
            read_calls = rdr.calls;
            after(&mut searcher, &matcher);
            r
        }
        Leg::File { mmap } => {
            let path = tmpfile();
            {
                let mut f = std::fs::File::create(&path).expect("tmp file");
                f.write_all(input).expect("tmp write");
            }
            // (Miri does not support file-backed memory maps)
            if *mmap && !cfg!(miri) {
                // SAFETY: the file is private to this thread and not
                // modified while mapped.
                b.memory_map(unsafe { MmapChoice::auto() });
            }
            let mut searcher = b.build();
            give_history(&mut searcher, &matcher, hist, cfg.term, cfg.binary);
            let r = searcher.search_path(&matcher, &path, sink);
            after(&mut searcher, &matcher);
            r
        }
    };
    (result, read_calls)
}

/// The text searched second by `run_leg_then` (terminated like the case).
pub fn followup_input(term: Term) -> Vec<u8> {
    let t: &[u8] = match term {
        Term::Lf => b"\n",
        Term::Crlf => b"\r\n",
        Term::Nul => b"\0",
    };
    let mut v = vec![];
    for piece in [&b"m follow one"[..], b"zz follow two", b"m follow three xyz", b"foo follow four a", b"m follow five"] {
        v.extend_from_slice(piece);
        v.extend_from_slice(t);
    }
    v.extend_from_slice(b"m follow tail");
    v
}

/// `run_leg`, and then a second, uninterrupted reader search of
/// `followup_input` through the same searcher. Returns both outcomes.
pub fn run_leg_then<M: Matcher>(
    matcher: M,
    cfg: &SearchCfg,
    leg: &Leg,
    input: &[u8],
    stop: Option<(usize, Stop)>,
) -> (Outcome, Outcome) {
    let mut sink = LogSink::new();
    sink.stop_at = stop;
    let mut follow = LogSink::new();
    let mut follow_result: Result<(), LogError> = Ok(());
    let mut follow_reads = 0;
    let next = followup_input(cfg.term);
    let caught = std::panic::catch_unwind(std::panic::AssertUnwindSafe(|| {
        search_leg_then(matcher, cfg, leg, input, &mut sink, &mut |searcher, m| {
            let mut rdr = ScriptReader::chunks(&next, 11);
            follow_result = searcher.search_reader(m, &mut rdr, &mut follow);
            follow_reads = rdr.calls;
        })
    }));
    let (result, read_calls) = match caught {
        Ok(x) => x,
        Err(p) => {
            let msg = p
                .downcast_ref::<String>()
                .cloned()
                .or_else(|| p.downcast_ref::<&str>().map(|s| s.to_string()))
                .unwrap_or_else(|| "panic".to_string());
            follow_result = Err(LogError::Panicked(msg.clone()));
            (Err(LogError::Panicked(msg)), 0)
        }
    };
    (
        Outcome { calls_after_stop: sink.calls_after_stop, log: sink.log, result, read_calls },
        Outcome { calls_after_stop: follow.calls_after_stop, log: follow.log, result: follow_result, read_calls: follow_reads },
    )
}

/// Run one search with the recording sink. `stop`: scripted sink stop.
pub fn run_leg<M: Matcher>(
    matcher: M,
    cfg: &SearchCfg,
    leg: &Leg,
    input: &[u8],
    stop: Option<(usize, Stop)>,
) -> Outcome {
    let mut sink = LogSink::new();
    sink.stop_at = stop;
    // a panic inside the searcher is an outcome to be judged (every monitor
    // treats a failed search it did not provoke as a violation), not a reason
    // for the harness to die
    let caught = std::panic::catch_unwind(std::panic::AssertUnwindSafe(|| {
        search_leg(matcher, cfg, leg, input, &mut sink)
    }));
    let (result, read_calls) = match caught {
        Ok(x) => x,
        Err(p) => {
            let msg = p
                .downcast_ref::<String>()
                .cloned()
                .or_else(|| p.downcast_ref::<&str>().map(|s| s.to_string()))
                .unwrap_or_else(|| "panic".to_string());
            (Err(LogError::Panicked(msg)), 0)
        }
    };
    Outcome {
        calls_after_stop: sink.calls_after_stop,
        log: sink.log,
        result,
        read_calls,
    }
}
