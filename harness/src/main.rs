//! rgmon — in-process runtime monitors for ripgrep's library crates.
//!
//! usage:
//!   rgmon <property> --tier quick|thorough --seed N [--jobs N] --out FILE
//!   rgmon replay <property> FILE
//!   rgmon ref <subcommand> ...     (reference helpers for the CLI monitors)

use std::sync::atomic::{AtomicUsize, Ordering};

pub mod c01;
pub mod c02;
pub mod c03;
pub mod c06;
pub mod c07;
pub mod c11;
pub mod c12;
pub mod c13;
pub mod c14;
pub mod c16;
pub mod c17;
pub mod c19;
pub mod ctxgen;
pub mod hirsample;
pub mod inputgen;
pub mod model;
pub mod oracle;
pub mod patgen;
pub mod refcmd;
pub mod report;
pub mod rng;
pub mod run;
pub mod sinklog;
pub mod treegen;

use report::Report;
use rng::Rng;

#[derive(Clone, Copy, Debug, PartialEq, Eq)]
pub enum Tier {
    Quick,
    Thorough,
}

#[derive(Clone, Debug)]
pub struct Ctx {
    pub seed: u64,
    pub tier: Tier,
    pub jobs: usize,
    /// Multiplier on the number of cases (for Miri and smoke runs).
    pub scale: f64,
    /// Explicit number of cases (overrides the tier's number; used by the
    /// interpreter legs, which can only afford a handful).
    pub cases_override: Option<usize>,
    /// Wall-clock cap in seconds for the generation loop (safety net; a run
    /// that hits it reports what it covered).
    pub time_cap_s: u64,
    pub start: std::time::Instant,
}

impl Ctx {
    pub fn cases(&self, quick: usize, thorough: usize) -> usize {
        if let Some(n) = self.cases_override {
            return n;
        }
        let n = match self.tier {
            Tier::Quick => quick,
            Tier::Thorough => thorough,
        };
        ((n as f64) * self.scale).ceil().max(1.0) as usize
    }
    pub fn is_thorough(&self) -> bool {
        self.tier == Tier::Thorough
    }
    pub fn out_of_time(&self) -> bool {
        self.start.elapsed().as_secs() >= self.time_cap_s
    }
}

/// Run `n` cases over `ctx.jobs` threads. Case `i` gets its own PRNG seeded
/// from (seed, tag, i), so a case is reproducible independently of the
/// thread count.
pub fn par_cases<F>(ctx: &Ctx, tag: u64, n: usize, f: F) -> Report
where
    F: Fn(&mut Rng, usize, &mut Report) + Sync,
{
    let next = AtomicUsize::new(0);
    let mut total = Report::new();
    let jobs = ctx.jobs.max(1);
    let reports: Vec<Report> = std::thread::scope(|s| {
        let handles: Vec<_> = (0..jobs)
            .map(|_| {
                s.spawn(|| {
                    let mut rep = Report::new();
                    loop {
                        let i = next.fetch_add(1, Ordering::Relaxed);
                        if i >= n {
                            break;
                        }
                        if i % 64 == 0 && ctx.out_of_time() {
                            rep.count("stopped_by_time_cap");
                            break;
                        }
                        let mut rng =
                            Rng::new(rng::mix(&[ctx.seed, tag, i as u64]));
                        f(&mut rng, i, &mut rep);
                    }
                    rep
                })
            })
            .collect();
        handles.into_iter().map(|h| h.join().unwrap()).collect()
    });
    for r in reports {
        total.merge(r);
    }
    total
}

fn usage() -> ! {
    eprintln!(
        "usage: rgmon <property> --tier quick|thorough --seed N [--jobs N] [--scale X] --out FILE\n       rgmon replay <property> FILE\n       rgmon ref ..."
    );
    std::process::exit(2)
}

fn main() {
    let args: Vec<String> = std::env::args().collect();
    if args.len() < 2 {
        usage();
    }
    match args[1].as_str() {
        "clicases" => {
            // rgmon clicases <kind> --seed S --n N
            let mut seed = 0u64;
            let mut n = 10usize;
            let mut i = 3;
            while i + 1 < args.len() {
                match args[i].as_str() {
                    "--seed" => seed = args[i + 1].parse().unwrap(),
                    "--n" => n = args[i + 1].parse().unwrap(),
                    _ => usage(),
                }
                i += 2;
            }
            let v = refcmd::clicases(&args[2], seed, n);
            println!("{}", serde_json::to_string(&v).unwrap());
        }
        "c07-child" => {
            let mut seed = 0u64;
            let mut runs = 10usize;
            let mut out = String::new();
            let mut thorough = false;
            let (mut shard, mut nshards) = (0usize, 0usize);
            let mut i = 2;
            while i + 1 < args.len() {
                match args[i].as_str() {
                    "--seed" => seed = args[i + 1].parse().unwrap(),
                    "--runs" => runs = args[i + 1].parse().unwrap(),
                    "--out" => out = args[i + 1].clone(),
                    "--tier" => thorough = args[i + 1] == "thorough",
                    "--shard" => {
                        let mut it = args[i + 1].split('/');
                        shard = it.next().and_then(|x| x.parse().ok()).unwrap_or(0);
                        nshards = it.next().and_then(|x| x.parse().ok()).unwrap_or(0);
                    }
                    _ => usage(),
                }
                i += 2;
            }
            c07::child(seed, runs, &out, thorough, shard, nshards);
            run::cleanup_scratch();
        }
        "c07-stress" | "c07-miri" => {
            let mut seed = 0u64;
            let mut runs = 10usize;
            let mut out = String::new();
            let mut i = 2;
            while i + 1 < args.len() {
                match args[i].as_str() {
                    "--seed" => seed = args[i + 1].parse().unwrap(),
                    "--runs" => runs = args[i + 1].parse().unwrap(),
                    "--out" => out = args[i + 1].clone(),
                    _ => usage(),
                }
                i += 2;
            }
            let rep = if args[1] == "c07-miri" {
                c07::miri_walks(seed)
            } else {
                let mut rep = report::Report::new();
                c07::stress(seed, runs, &mut rep);
                rep
            };
            let text = serde_json::to_string(&rep.to_json()).unwrap();
            if out.is_empty() {
                println!("{}", text);
            } else {
                std::fs::write(&out, text).expect("write report");
            }
            run::cleanup_scratch();
        }
        "ref" => {
            let mut text = String::new();
            std::io::Read::read_to_string(&mut std::io::stdin(), &mut text)
                .expect("stdin");
            let jobs: serde_json::Value =
                serde_json::from_str(&text).expect("jobs json");
            let v = refcmd::reference(&jobs);
            println!("{}", serde_json::to_string(&v).unwrap());
        }
        "replay" => {
            if args.len() < 4 {
                usage();
            }
            let text = std::fs::read_to_string(&args[3]).expect("read replay");
            let v: serde_json::Value =
                serde_json::from_str(&text).expect("replay json");
            let body = if v.get("replay").is_some() { &v["replay"] } else { &v };
            let rep = match args[2].to_ascii_lowercase().as_str() {
                "c01" => c01::replay(body),
                "c02" => c02::replay(body),
                "c03" => c03::replay(body),
                "c16" => c16::replay(body),
                "c13" => c13::replay(body),
                "c12" => c12::replay(body),
                "c11" => c11::replay(body),
                "c06" => c06::replay(body),
                "c07" => c07::replay(body),
                "c14" => c14::replay(body),
                "c17" => c17::replay(body),
                p => {
                    eprintln!("no replay for {}", p);
                    std::process::exit(2)
                }
            };
            println!("{}", serde_json::to_string_pretty(&rep.to_json()).unwrap());
            run::cleanup_scratch();
            std::process::exit(if rep.violations.is_empty() { 0 } else { 1 });
        }
        prop => {
            let mut ctx = Ctx {
                seed: 0,
                tier: Tier::Quick,
                jobs: std::thread::available_parallelism()
                    .map(|n| n.get())
                    .unwrap_or(4),
                scale: 1.0,
                cases_override: None,
                time_cap_s: 3600,
                start: std::time::Instant::now(),
            };
            let mut out: Option<String> = None;
            let mut i = 2;
            while i < args.len() {
                let val = args.get(i + 1).cloned();
                match args[i].as_str() {
                    "--tier" => {
                        ctx.tier = match val.as_deref() {
                            Some("thorough") => Tier::Thorough,
                            _ => Tier::Quick,
                        }
                    }
                    "--seed" => ctx.seed = val.unwrap().parse().unwrap(),
                    "--jobs" => ctx.jobs = val.unwrap().parse().unwrap(),
                    "--scale" => ctx.scale = val.unwrap().parse().unwrap(),
                    "--cases" => {
                        ctx.cases_override = Some(val.unwrap().parse().unwrap())
                    }
                    "--time-cap" => {
                        ctx.time_cap_s = val.unwrap().parse().unwrap()
                    }
                    "--out" => out = val,
                    _ => usage(),
                }
                i += 2;
            }
            let rep = match prop.to_ascii_lowercase().as_str() {
                "c01" => c01::run(&ctx),
                "c02" => c02::run(&ctx),
                "c03" => c03::run(&ctx),
                "c16" => c16::run(&ctx),
                "c13" => c13::run(&ctx),
                "c12" => c12::run(&ctx),
                "c11" => c11::run(&ctx),
                "c06" => c06::run(&ctx),
                "c07" => c07::run(&ctx),
                "c14" => c14::run(&ctx),
                "c17" => c17::run(&ctx),
                _ => usage(),
            };
            let mut j = rep.to_json();
            j["wall_s"] = serde_json::json!(ctx.start.elapsed().as_secs_f64());
            j["seed"] = serde_json::json!(ctx.seed);
            let text = serde_json::to_string_pretty(&j).unwrap();
            match out {
                Some(p) => std::fs::write(p, text).expect("write report"),
                None => println!("{}", text),
            }
            run::cleanup_scratch();
        }
    }
}
