//! C12 — a glob set answers like its member globs; globs mean what is
//! documented.
//!
//! (1) set vs members: pure differential between `GlobSet::matches` and the
//!     individually compiled `GlobMatcher`s, over ALL paths of a small
//!     alphabet up to a length bound.
//! (2) glob vs documentation: an independent backtracking matcher over the
//!     token grammar written from the globset documentation.

use std::borrow::Cow;

use globset::{Candidate, GlobBuilder, GlobMatcher, GlobSetBuilder};
use serde_json::{json, Value};

use crate::{
    report::{esc, unesc, Report},
    rng::{fnv_parts, Rng},
    Ctx,
};

#[derive(Clone, Copy, Debug, PartialEq, Eq, Hash)]
pub struct Opts {
    pub case_insensitive: bool,
    pub literal_separator: bool,
    pub backslash_escape: bool,
    pub empty_alternates: bool,
}

impl Opts {
    pub fn from_bits(b: usize) -> Opts {
        Opts {
            case_insensitive: b & 1 != 0,
            literal_separator: b & 2 != 0,
            backslash_escape: b & 4 == 0,
            empty_alternates: b & 8 != 0,
        }
    }
    pub fn to_json(&self) -> Value {
        json!({"case_insensitive": self.case_insensitive, "literal_separator": self.literal_separator,
               "backslash_escape": self.backslash_escape, "empty_alternates": self.empty_alternates})
    }
    pub fn from_json(v: &Value) -> Opts {
        Opts {
            case_insensitive: v["case_insensitive"].as_bool().unwrap_or(false),
            literal_separator: v["literal_separator"].as_bool().unwrap_or(false),
            backslash_escape: v["backslash_escape"].as_bool().unwrap_or(true),
            empty_alternates: v["empty_alternates"].as_bool().unwrap_or(false),
        }
    }
}

pub fn build(glob: &str, o: Opts) -> Result<globset::Glob, String> {
    GlobBuilder::new(glob)
        .case_insensitive(o.case_insensitive)
        .literal_separator(o.literal_separator)
        .backslash_escape(o.backslash_escape)
        .empty_alternates(o.empty_alternates)
        .build()
        .map_err(|e| e.to_string())
}

// ---------------------------------------------------------------------------
// The documented meaning: an independent matcher.

#[derive(Clone, Debug)]
enum Tok {
    Lit(u8),
    Any,
    Star,
    /// `**/` at the start
    RecPrefix,
    /// `/**` at the end
    RecSuffix,
    /// `/**/` inside
    RecInfix,
    /// the whole glob is `**`
    Everything,
    Class { negated: bool, ranges: Vec<(u8, u8)> },
    Alt(Vec<Vec<Tok>>),
}

/// Parse the subset of glob syntax the generator produces. Returns None for
/// anything outside it (the pair is then only used for the set/member
/// differential).
fn parse(glob: &[u8], o: Opts, top: bool) -> Option<Vec<Tok>> {
    let mut toks = vec![];
    let mut i = 0;
    if top && glob == b"**" {
        return Some(vec![Tok::Everything]);
    }
    while i < glob.len() {
        let c = glob[i];
        match c {
            b'\\' if o.backslash_escape => {
                let n = *glob.get(i + 1)?;
                toks.push(Tok::Lit(n));
                i += 2;
            }
            b'?' => {
                toks.push(Tok::Any);
                i += 1;
            }
            b'*' => {
                if glob.get(i + 1) == Some(&b'*') {
                    // only whole-component `**` is in the documented grammar
                    let at_start = i == 0;
                    let after_slash = i > 0 && glob[i - 1] == b'/';
                    let end = i + 2 == glob.len();
                    let before_slash = glob.get(i + 2) == Some(&b'/');
                    if !top {
                        return None;
                    }
                    if at_start && before_slash {
                        toks.push(Tok::RecPrefix);
                        i += 3;
                    } else if after_slash && end {
                        // the `/` was already pushed as a literal
                        toks.pop();
                        toks.push(Tok::RecSuffix);
                        i += 2;
                    } else if after_slash && before_slash {
                        toks.pop();
                        toks.push(Tok::RecInfix);
                        i += 3;
                    } else {
                        return None;
                    }
                } else {
                    toks.push(Tok::Star);
                    i += 1;
                }
            }
            b'[' => {
                let mut j = i + 1;
                let mut negated = false;
                if glob.get(j) == Some(&b'!') {
                    negated = true;
                    j += 1;
                }
                let mut ranges = vec![];
                let mut first = true;
                loop {
                    let ch = *glob.get(j)?;
                    if ch == b']' && !first {
                        break;
                    }
                    first = false;
                    if glob.get(j + 1) == Some(&b'-') && glob.get(j + 2).map_or(false, |&e| e != b']') {
                        ranges.push((ch, glob[j + 2]));
                        j += 3;
                    } else {
                        ranges.push((ch, ch));
                        j += 1;
                    }
                }
                toks.push(Tok::Class { negated, ranges });
                i = j + 1;
            }
            b'{' => {
                if !top {
                    return None;
                }
                let close = glob[i..].iter().position(|&b| b == b'}')? + i;
                let inner = &glob[i + 1..close];
                let mut alts = vec![];
                for part in inner.split(|&b| b == b',') {
                    if part.is_empty() && !o.empty_alternates {
                        // documented only for the option being set
                        return None;
                    }
                    alts.push(parse(part, o, false)?);
                }
                toks.push(Tok::Alt(alts));
                i = close + 1;
            }
            b'}' | b']' => return None,
            _ => {
                toks.push(Tok::Lit(c));
                i += 1;
            }
        }
    }
    Some(toks)
}

fn fold(b: u8, ci: bool) -> u8 {
    if ci {
        b.to_ascii_lowercase()
    } else {
        b
    }
}

/// `interp` selects one reading of what the documentation leaves open:
/// bit 0: a negated class matches `/` under literal_separator;
/// bit 1: `/**` at the end matches an empty remainder (path `foo/`);
/// bit 2: `**/` at the start matches a path beginning with `/`.
fn m(toks: &[Tok], path: &[u8], o: Opts, interp: u8) -> bool {
    let (t, rest) = match toks.split_first() {
        None => return path.is_empty(),
        Some(x) => x,
    };
    match t {
        Tok::Everything => true,
        Tok::Lit(c) => {
            !path.is_empty()
                && fold(path[0], o.case_insensitive) == fold(*c, o.case_insensitive)
                && m(rest, &path[1..], o, interp)
        }
        Tok::Any => {
            !path.is_empty()
                && !(o.literal_separator && path[0] == b'/')
                && m(rest, &path[1..], o, interp)
        }
        Tok::Star => {
            for k in 0..=path.len() {
                if k > 0 && o.literal_separator && path[k - 1] == b'/' {
                    break;
                }
                if m(rest, &path[k..], o, interp) {
                    return true;
                }
            }
            false
        }
        Tok::Class { negated, ranges } => {
            if path.is_empty() {
                return false;
            }
            let c = path[0];
            let fc = fold(c, o.case_insensitive);
            let mut inside = ranges.iter().any(|&(a, b)| {
                (a <= c && c <= b)
                    || (o.case_insensitive
                        && ((fold(a, true) <= fc && fc <= fold(b, true))
                            || (a.to_ascii_uppercase() <= c.to_ascii_uppercase()
                                && c.to_ascii_uppercase() <= b.to_ascii_uppercase())))
            });
            if *negated {
                inside = !inside;
                if c == b'/' && o.literal_separator && interp & 1 == 0 {
                    inside = false;
                }
            }
            inside && m(rest, &path[1..], o, interp)
        }
        Tok::RecPrefix => {
            // zero or more whole directories
            if m(rest, path, o, interp) {
                return true;
            }
            for k in 0..path.len() {
                if path[k] == b'/' {
                    if k == 0 && interp & 4 == 0 {
                        continue;
                    }
                    if m(rest, &path[k + 1..], o, interp) {
                        return true;
                    }
                }
            }
            false
        }
        Tok::RecSuffix => {
            // `/` followed by all sub-entries
            if path.is_empty() || path[0] != b'/' {
                return false;
            }
            if path.len() == 1 {
                return interp & 2 != 0 && rest.is_empty();
            }
            rest.is_empty()
        }
        Tok::RecInfix => {
            // `/`, or `/` dirs `/`
            if path.is_empty() || path[0] != b'/' {
                return false;
            }
            if m(rest, &path[1..], o, interp) {
                return true;
            }
            for k in 1..path.len() {
                if path[k] == b'/' && m(rest, &path[k + 1..], o, interp) {
                    return true;
                }
            }
            false
        }
        Tok::Alt(alts) => {
            for a in alts {
                let mut seq = a.clone();
                seq.extend_from_slice(rest);
                if m(&seq, path, o, interp) {
                    return true;
                }
            }
            false
        }
    }
}

/// Some(verdict) when every reading of the documentation agrees.
pub fn model(glob: &str, o: Opts, path: &[u8]) -> Option<bool> {
    // Degenerate uses of `**` that the documentation does not describe:
    // `**/` with nothing after it, and two `**` components in a row.
    if glob == "**/" || glob.contains("**/**") {
        return None;
    }
    let toks = parse(glob.as_bytes(), o, true)?;
    let first = m(&toks, path, o, 0);
    for interp in 1..8u8 {
        if m(&toks, path, o, interp) != first {
            return None;
        }
    }
    Some(first)
}

// ---------------------------------------------------------------------------
// Generators

pub const GLOB_TOKENS: &[&str] = &[
    "a", "b", ".", "-", "A", "/", "?", "*", "**", "[ab]", "[!a]", "[a-b]",
    "{a,b}", "{a,*.b}", "\\*", "[.]", "{ab,a/b}", "\\a", "[!.]", "{,a}",
    "\\/",
];

/// Join tokens into glob text. `**` is only emitted as a whole component.
pub fn join(tokens: &[&str]) -> Option<String> {
    let mut s = String::new();
    for (i, t) in tokens.iter().enumerate() {
        if *t == "**" {
            let prev_ok = i == 0 || tokens[i - 1] == "/" || tokens[i - 1] == "\\/";
            let next_ok = i + 1 == tokens.len() || tokens[i + 1] == "/" || tokens[i + 1] == "\\/";
            if !prev_ok || !next_ok {
                return None;
            }
        }
        s.push_str(t);
    }
    Some(s)
}

pub fn enumerate_globs(max_tokens: usize, ntok: usize) -> Vec<String> {
    let toks = &GLOB_TOKENS[..ntok.min(GLOB_TOKENS.len())];
    let mut out = vec![];
    let mut idx = vec![0usize; 1];
    loop {
        let sel: Vec<&str> = idx.iter().map(|&i| toks[i]).collect();
        if let Some(g) = join(&sel) {
            out.push(g);
        }
        // increment
        let mut k = idx.len();
        loop {
            if k == 0 {
                if idx.len() == max_tokens {
                    return out;
                }
                idx = vec![0; idx.len() + 1];
                break;
            }
            k -= 1;
            idx[k] += 1;
            if idx[k] < toks.len() {
                break;
            }
            idx[k] = 0;
        }
    }
}

pub const ALPHABET: &[u8] = b"ab./-A";

pub fn all_paths(max_len: usize) -> Vec<Vec<u8>> {
    let mut out = vec![vec![]];
    let mut level = vec![vec![]];
    for _ in 0..max_len {
        let mut next = Vec::with_capacity(level.len() * ALPHABET.len());
        for p in &level {
            for &c in ALPHABET {
                let mut q = p.clone();
                q.push(c);
                next.push(q);
            }
        }
        out.extend(next.iter().cloned());
        level = next;
    }
    out
}

pub fn random_path(rng: &mut Rng) -> Vec<u8> {
    let n = rng.range(6, 24);
    let pool: &[&[u8]] = &[
        b"a", b"b", b".", b"/", b"-", b"A", b"ab", b"a.b", b"/a", b"\xff", b"\xc3", b"B", b"..", b"*", b"a/b/", b".a",
        b"\n", b"a\nb", b"\r", b" ",
    ];
    let mut p = vec![];
    for _ in 0..n {
        p.extend_from_slice(rng.pick(pool));
    }
    p
}

fn shape(glob: &str) -> &'static str {
    let has_meta = glob.contains(|c| "*?[{\\".contains(c));
    if !has_meta {
        return "literal";
    }
    if glob.starts_with("**/") && !glob[3..].contains(|c| "*?[{\\/".contains(c)) {
        return "basename_literal";
    }
    if glob.starts_with("*.") && !glob[2..].contains(|c| "*?[{\\/.".contains(c)) {
        return "extension";
    }
    if glob.ends_with('*') && !glob[..glob.len() - 1].contains(|c| "*?[{\\".contains(c)) {
        return "prefix";
    }
    if glob.starts_with('*') && !glob[1..].contains(|c| "*?[{\\".contains(c)) {
        return "suffix";
    }
    if glob.contains("*.") {
        return "maybe_required_ext";
    }
    "regex"
}

struct Compiled {
    text: String,
    opts: Opts,
    glob: globset::Glob,
    matcher: GlobMatcher,
}

fn check_block(
    globs: &[Compiled],
    paths: &[Vec<u8>],
    do_model: bool,
    rep: &mut Report,
) {
    let mut b = GlobSetBuilder::new();
    for g in globs {
        b.add(g.glob.clone());
    }
    let set = match b.build() {
        Ok(s) => s,
        Err(e) => {
            rep.notes.push(format!("set build failed: {}", e));
            return;
        }
    };
    for g in globs {
        rep.count(&format!("shape_{}", shape(&g.text)));
    }
    let mut any_match = vec![false; globs.len()];
    let mut any_non = vec![false; globs.len()];
    // the `_into` entry points are documented to clear the vector they are
    // given: one vector is reused for every path (and starts with content
    // that no query can produce), as a caller with a scratch vector does
    let mut reused: Vec<usize> = vec![usize::MAX, 3, 3];
    let empty_sets = [globset::GlobSet::empty(), GlobSetBuilder::new().build().expect("empty set")];
    for (pi, p) in paths.iter().enumerate() {
        let pstr: &std::path::Path = {
            use std::os::unix::ffi::OsStrExt;
            std::path::Path::new(std::ffi::OsStr::from_bytes(p))
        };
        let cand = Candidate::new(pstr);
        let from_set = set.matches_candidate(&cand);
        let any = set.is_match_candidate(&cand);
        let mut individually = vec![];
        for (i, g) in globs.iter().enumerate() {
            let mres = g.matcher.is_match_candidate(&cand);
            rep.evaluations += 1;
            if mres {
                individually.push(i);
                any_match[i] = true;
            } else {
                any_non[i] = true;
            }
            if do_model {
                match model(&g.text, g.opts, p) {
                    None => rep.count("model_undetermined_pairs"),
                    Some(want) => {
                        rep.count("model_decided_pairs");
                        if want != mres {
                            rep.violation(
                                &format!(
                                    "C12:doc-model:{}:{}",
                                    shape(&g.text),
                                    if mres { "matches-but-should-not" } else { "should-match" }
                                ),
                                format!(
                                    "glob {:?} {:?} vs path {:?}: compiled glob says {}, documented meaning says {}",
                                    g.text, g.opts, esc(p), mres, want
                                ),
                                || json!({"kind": "model", "glob": g.text, "opts": g.opts.to_json(), "path": esc(p)}),
                            );
                        }
                    }
                }
            }
        }
        if pi % 2 == 0 {
            set.matches_candidate_into(&cand, &mut reused);
        } else {
            set.matches_into(pstr, &mut reused);
        }
        if reused != individually {
            rep.violation(
                "C12:set-vs-member:matches_into-with-a-reused-vector",
                format!(
                    "path {:?}: {} into a vector that held the previous answer gives {:?}, members answer {:?} ({} globs)",
                    esc(p),
                    if pi % 2 == 0 { "matches_candidate_into" } else { "matches_into" },
                    reused, individually, globs.len()
                ),
                || {
                    json!({
                        "kind": "set",
                        "globs": globs.iter().map(|g| json!({"glob": g.text, "opts": g.opts.to_json()})).collect::<Vec<_>>(),
                        "path": esc(p), "set": reused, "members": individually,
                    })
                },
            );
        }
        if pi % 4 == 0 {
            // a set without globs matches nothing, whatever the vector held
            let e = &empty_sets[(pi / 4) % 2];
            let held = if reused.is_empty() { vec![usize::MAX, 1] } else { reused.clone() };
            let mut v = held.clone();
            if pi % 8 == 0 {
                e.matches_candidate_into(&cand, &mut v);
            } else {
                e.matches_into(pstr, &mut v);
            }
            if !v.is_empty() || e.is_match_candidate(&cand) || !e.matches_candidate(&cand).is_empty() {
                rep.violation(
                    "C12:empty-set:answers-something",
                    format!(
                        "path {:?}: a set of zero globs, asked with a vector holding {:?}, answers {:?} (is_match {})",
                        esc(p), held, v, e.is_match_candidate(&cand)
                    ),
                    || json!({"kind": "set", "globs": [], "path": esc(p), "set": v, "members": []}),
                );
            }
            rep.count("empty_set_queries_with_a_used_vector");
        }
        if from_set != individually || any != !individually.is_empty() {
            let missing: Vec<usize> = individually.iter().filter(|i| !from_set.contains(i)).copied().collect();
            let extra: Vec<usize> = from_set.iter().filter(|i| !individually.contains(i)).copied().collect();
            let culprit = missing.first().or(extra.first()).copied().unwrap_or(0);
            rep.violation(
                &format!(
                    "C12:set-vs-member:{}:{}",
                    shape(&globs[culprit].text),
                    if !missing.is_empty() { "set-misses" } else if !extra.is_empty() { "set-adds" } else { "is_match-disagrees" }
                ),
                format!(
                    "path {:?}: set answers {:?} (is_match {}), members answer {:?}; glob {:?} {:?}",
                    esc(p), from_set, any, individually, globs[culprit].text, globs[culprit].opts
                ),
                || {
                    json!({
                        "kind": "set",
                        "globs": globs.iter().map(|g| json!({"glob": g.text, "opts": g.opts.to_json()})).collect::<Vec<_>>(),
                        "path": esc(p), "set": from_set, "members": individually,
                    })
                },
            );
        }
    }
    for (i, g) in globs.iter().enumerate() {
        if any_match[i] && any_non[i] {
            rep.nontrivial(fnv_parts(&[g.text.as_bytes(), format!("{:?}", g.opts).as_bytes()]));
        }
    }
}

fn compile(text: &str, opts: Opts) -> Option<Compiled> {
    let glob = build(text, opts).ok()?;
    let matcher = glob.compile_matcher();
    Some(Compiled { text: text.to_string(), opts, glob, matcher })
}

/// Documented: "`{a,b}` matches `a` or `b` where `a` and `b` are arbitrary
/// glob patterns". So a glob with one group answers like the union of the
/// globs obtained by substituting each branch - as long as the substitution
/// leaves every `**` a whole component in the same position class (a branch
/// ending in `/**` only when the group ends the glob, a branch starting with
/// `**/` only when the group starts it), which is what is generated here.
/// Both sides are globset's own answers: a metamorphic relation, no model.
fn alternates_case(rng: &mut Rng) -> (String, Vec<String>) {
    const PLAIN: &[&str] = &["a", "b", "ab", "*.b", "a/*", "[ab]", "a?", "*", "a/b", ".a", "-"];
    const SUFFIXED: &[&str] = &["a/**", "b/**", "a/*/**", "a/b/**", "*/**"];
    const PREFIXED: &[&str] = &["**/a", "**/b", "**/*.b", "**/a/b"];
    const INFIXED: &[&str] = &["a/**/b", "a/**/*", "b/**/a"];
    let kind = rng.below(3);
    let n = rng.range(2, 3);
    let mut branches: Vec<String> = vec![];
    for _ in 0..n {
        let b = match (kind, rng.below(3)) {
            (0, 0) | (0, 1) => rng.pick(SUFFIXED),
            (1, 0) | (1, 1) => rng.pick(PREFIXED),
            (2, 0) => rng.pick(INFIXED),
            _ => rng.pick(PLAIN),
        };
        branches.push(b.to_string());
    }
    let pre = if kind == 1 { "" } else { rng.pick(&["", "", "a/", "*/", "b", "**/"]) };
    let post = if kind == 0 { "" } else { rng.pick(&["", "", "/b", "/*", ".b", "/**", "a"]) };
    let whole = format!("{}{{{}}}{}", pre, branches.join(","), post);
    let members = branches.iter().map(|b| format!("{}{}{}", pre, b, post)).collect();
    (whole, members)
}

fn check_alternates(rng: &mut Rng, paths: &[Vec<u8>], rep: &mut Report) {
    let (whole, members) = alternates_case(rng);
    let opts = Opts::from_bits(if rng.chance(1, 2) { 2 } else { rng.below(16) });
    let w = match compile(&whole, opts) {
        Some(c) => c,
        None => {
            rep.count("alternates_rejected");
            return;
        }
    };
    let ms: Vec<Compiled> = members.iter().filter_map(|m| compile(m, opts)).collect();
    if ms.len() != members.len() {
        rep.count("alternates_rejected");
        return;
    }
    rep.count("alternate_groups_checked");
    let mut both = (false, false);
    for p in paths {
        use std::os::unix::ffi::OsStrExt;
        let pstr = std::path::Path::new(std::ffi::OsStr::from_bytes(p));
        let cand = Candidate::new(pstr);
        let got = w.matcher.is_match_candidate(&cand);
        let want = ms.iter().any(|m| m.matcher.is_match_candidate(&cand));
        rep.evaluations += 1;
        if got {
            both.0 = true;
        } else {
            both.1 = true;
        }
        if got != want {
            rep.violation(
                "C12:alternates:not-the-union-of-its-branches",
                format!(
                    "glob {:?} (opts {}) {} path {:?}, but its branches {:?} {}",
                    whole,
                    opts.to_json(),
                    if got { "matches" } else { "does not match" },
                    esc(p),
                    members,
                    if want { "do (one of them)" } else { "do not" }
                ),
                || json!({"kind": "alternates", "glob": whole, "members": members,
                          "opts": opts.to_json(), "path": esc(p)}),
            );
            break;
        }
    }
    if both.0 && both.1 {
        rep.nontrivial(fnv_parts(&[whole.as_bytes(), format!("{:?}", opts).as_bytes()]));
    }
}

/// Sets built from *related* globs: every substring of a base word as a
/// whole-path literal, prefix (`s*`, `s/**`), suffix (`*s`), basename
/// (`**/s`) and extension (`*.s`) glob. Literals that contain or overlap each
/// other are what the multi-pattern strategies (Aho-Corasick based prefix and
/// suffix tables, basename and extension maps) have to keep apart.
pub fn family_globs(rng: &mut Rng) -> Vec<String> {
    let n = rng.range(2, 5);
    // one word in three has multi-byte characters: literal lengths in bytes
    // and in characters then differ
    let alphabet: &[char] = if rng.chance(1, 3) {
        &['a', 'b', 'é', '.', '-', 'A', '/', 'é', '語']
    } else {
        &['a', 'b', 'a', 'b', '.', '-', 'A', '/']
    };
    let word: Vec<char> = (0..n).map(|_| rng.pick(alphabet)).collect();
    let mut subs: Vec<String> = vec![];
    for i in 0..word.len() {
        for j in i + 1..=word.len() {
            let s: String = word[i..j].iter().collect();
            if !subs.contains(&s) {
                subs.push(s);
            }
        }
    }
    let mut out = vec![];
    for s in &subs {
        let forms = [
            s.clone(),
            format!("{}*", s),
            format!("*{}", s),
            format!("**/{}", s),
            format!("*.{}", s),
            format!("{}/**", s),
            format!("*{}*", s),
        ];
        for f in forms.iter() {
            if rng.chance(1, 2) && !f.contains("//") && !f.contains("/**/**") {
                out.push(f.clone());
            }
        }
    }
    rng.shuffle(&mut out);
    out.truncate(24);
    out
}

pub fn run(ctx: &Ctx) -> Report {
    let thorough = ctx.is_thorough();
    let (max_tokens, ntok, path_len) = if cfg!(miri) {
        (2, 16, 2)
    } else if thorough {
        (4, 16, 6)
    } else {
        (3, 16, 5)
    };
    let globs = enumerate_globs(max_tokens, ntok);
    let paths = all_paths(path_len);
    // blocks of 8 globs; each block is one case
    let block = 8usize;
    let nblocks = (globs.len() + block - 1) / block;
    let n = (nblocks * 4) as f64 * ctx.scale;
    let n = ctx.cases_override.unwrap_or(n.ceil() as usize);
    let mut total = crate::par_cases(ctx, 12, n, |rng, i, rep| {
        let optbits = match i % 4 {
            0 => 0,
            1 => 2,
            2 => rng.below(16),
            _ => 1 + 2 * rng.below(8),
        };
        let opts = Opts::from_bits(optbits);
        let bi = (i / 4) % nblocks;
        let family = i % 3 == 2;
        let source: Vec<String> = if family {
            rep.count("family_sets");
            family_globs(rng)
        } else if i % 5 == 4 {
            // random sequences over ALL tokens (the exhaustive enumeration
            // only uses the first `ntok` of them), up to 6 tokens long
            rep.count("random_token_sets");
            let mut v = vec![];
            while v.len() < block {
                let n = rng.range(2, 6);
                let sel: Vec<&str> = (0..n).map(|_| rng.pick(GLOB_TOKENS)).collect();
                if let Some(g) = join(&sel) {
                    v.push(g);
                }
            }
            v
        } else {
            globs[bi * block..((bi + 1) * block).min(globs.len())].to_vec()
        };
        let mut comp: Vec<Compiled> = source
            .iter()
            .filter_map(|g| {
                // family sets mostly use the default options, where the
                // literal strategies are eligible
                let o = if family && rng.chance(3, 4) { Opts::from_bits(0) } else { opts };
                let c = compile(g, o);
                if c.is_none() {
                    rep.count("globs_rejected");
                }
                c
            })
            .collect();
        // mix in a few random globs from elsewhere so that sets combine
        // different strategies
        for _ in 0..rng.below(5) {
            let g = rng.pick_ref(&globs);
            if let Some(c) = compile(g, Opts::from_bits(rng.below(16))) {
                comp.push(c);
            }
        }
        if comp.is_empty() {
            return;
        }
        // the model leg is costlier: every block, but on a path subsample
        // in the quick tier
        let mut ps: Vec<Vec<u8>> = if thorough || paths.len() < 2000 {
            paths.clone()
        } else {
            // all paths up to length 4 + a random quarter of the rest
            paths.iter().filter(|p| p.len() <= 4 || rng.chance(1, 4)).cloned().collect()
        };
        for _ in 0..(if cfg!(miri) { 2 } else { 40 }) {
            ps.push(random_path(rng));
        }
        if family {
            // paths built around the family's own literals
            for g in &source {
                let lit: String = g.chars().filter(|c| *c != '*').collect();
                let lit = lit.trim_matches('/').to_string();
                if lit.is_empty() {
                    continue;
                }
                for p in [
                    lit.clone(),
                    format!("x/{}", lit),
                    format!("x/y/{}", lit),
                    format!("{}/x", lit),
                    format!("a{}", lit),
                    format!("{}b", lit),
                    format!("x/{}/y.{}", lit, lit),
                    format!("new\nline/{}", lit),
                    format!("{}\n{}", lit, lit),
                ] {
                    ps.push(p.into_bytes());
                }
            }
        }
        check_block(&comp, &ps, true, rep);
        for _ in 0..(if cfg!(miri) { 1 } else { 4 }) {
            check_alternates(rng, &ps, rep);
        }
        rep.sample(|| {
            json!({
                "set": comp.iter().map(|c| c.text.clone()).collect::<Vec<_>>(),
                "opts": opts.to_json(), "paths_checked": ps.len(),
                "example_paths": ps.iter().rev().take(3).map(|p| esc(p)).collect::<Vec<_>>(),
            })
        });
    });
    total.add("enumerated_globs", globs.len() as u64);
    total.add("exhaustive_paths", paths.len() as u64);
    total
}

pub fn replay(v: &Value) -> Report {
    let mut rep = Report::new();
    let path = unesc(v["path"].as_str().unwrap_or(""));
    if v["kind"] == "alternates" {
        let opts = Opts::from_json(&v["opts"]);
        let w = compile(v["glob"].as_str().unwrap_or(""), opts);
        let ms: Vec<Compiled> = v["members"]
            .as_array()
            .map(|a| a.iter().filter_map(|m| compile(m.as_str().unwrap_or(""), opts)).collect())
            .unwrap_or_default();
        if let Some(w) = w {
            use std::os::unix::ffi::OsStrExt;
            let pstr = std::path::Path::new(std::ffi::OsStr::from_bytes(&path));
            let cand = Candidate::new(pstr);
            let got = w.matcher.is_match_candidate(&cand);
            let want = ms.iter().any(|m| m.matcher.is_match_candidate(&cand));
            rep.evaluations += 1;
            if got != want {
                rep.violation(
                    "C12:alternates:not-the-union-of-its-branches",
                    format!("glob {:?}: {} but branches: {}", w.text, got, want),
                    || v.clone(),
                );
            }
        }
    } else if v["kind"] == "model" {
        let opts = Opts::from_json(&v["opts"]);
        if let Some(c) = compile(v["glob"].as_str().unwrap(), opts) {
            check_block(&[c], &[path], true, &mut rep);
        }
    } else {
        let comp: Vec<Compiled> = v["globs"]
            .as_array()
            .unwrap()
            .iter()
            .filter_map(|g| compile(g["glob"].as_str().unwrap(), Opts::from_json(&g["opts"])))
            .collect();
        check_block(&comp, &[path], false, &mut rep);
    }
    rep
}

#[allow(dead_code)]
fn _cow(_: Cow<'_, [u8]>) {}
