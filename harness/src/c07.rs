//! C07 — the parallel walker terminates and loses nothing under every thread
//! schedule (restated as bounded progress under fair seeded schedules).
//!
//! Main instrument: a controlled scheduler driven by the `ignore::verif`
//! yield points. Every worker parks at every synchronisation point; when all
//! live workers are parked a seeded policy picks the one that may run to its
//! next point. Only one worker runs at a time, so every explored execution is
//! a real interleaving at hook granularity and is reproducible from the
//! recorded decision sequence.

use std::{
    collections::{BTreeMap, VecDeque},
    fs,
    path::{Path, PathBuf},
    sync::{Arc, Condvar, Mutex},
};

use ignore::{
    verif::{self, Point},
    WalkBuilder, WalkState,
};
use serde_json::{json, Value};

use crate::{
    report::Report,
    rng::{fnv, mix, Rng},
    treegen::{self, Kind, Node, Tree},
    Ctx, Tier,
};

#[derive(Clone, Copy, Debug, PartialEq, Eq)]
pub enum Policy {
    Uniform,
    Pct(usize),
    Starve(usize),
    /// priority scheduling with an enumerated priority order (index of the
    /// permutation) and enumerated preemption points (`RunSpec::change_points`):
    /// the systematic sweep
    Fixed(usize),
}

impl Policy {
    fn name(&self) -> String {
        match self {
            Policy::Uniform => "uniform".into(),
            Policy::Pct(d) => format!("pct{}", d),
            Policy::Starve(w) => format!("starve{}", w),
            Policy::Fixed(p) => format!("fixed{}", p),
        }
    }
}

struct St {
    n: usize,
    started: usize,
    arrived: Vec<bool>,
    finished: Vec<bool>,
    turn: Option<usize>,
    steps: u64,
    idle_cycles: Vec<u32>,
    decisions: Vec<u8>,
    rng: Rng,
    policy: Policy,
    prio: Vec<i64>,
    change_points: Vec<u64>,
    tail: VecDeque<(usize, Point)>,
    step_bound: u64,
    steals: u64,
    idle_transitions: u64,
    quit_with_work_queued: u64,
    sends_outstanding: i64,
}

pub struct Sched {
    st: Mutex<St>,
    cv: Condvar,
    /// what to do when a definite livelock / the step bound is hit
    on_abort: Box<dyn Fn(&str, Value) + Send + Sync>,
}

impl Sched {
    fn pick_next(st: &mut St) {
        let cands: Vec<usize> =
            (0..st.n).filter(|&w| !st.finished[w] && st.arrived[w]).collect();
        if cands.is_empty() {
            return;
        }
        let w = match st.policy {
            Policy::Uniform => cands[st.rng.below(cands.len())],
            Policy::Pct(_) | Policy::Fixed(_) => {
                let w = *cands.iter().max_by_key(|&&w| st.prio[w]).unwrap();
                if st.change_points.contains(&st.steps) {
                    let low = st.prio.iter().min().copied().unwrap_or(0) - 1;
                    st.prio[w] = low;
                }
                w
            }
            Policy::Starve(victim) => {
                let others: Vec<usize> = cands
                    .iter()
                    .copied()
                    .filter(|&w| w != victim && st.idle_cycles[w] == 0)
                    .collect();
                if others.is_empty() || st.rng.chance(1, 40) {
                    cands[st.rng.below(cands.len())]
                } else {
                    others[st.rng.below(others.len())]
                }
            }
        };
        st.decisions.push(w as u8);
        st.turn = Some(w);
    }

    fn hook(&self, w: usize, p: Point) -> bool {
        let mut st = self.st.lock().unwrap();
        st.steps += 1;
        if st.tail.len() >= 64 {
            st.tail.pop_front();
        }
        st.tail.push_back((w, p));
        match p {
            Point::IdleSleep => {
                st.idle_cycles[w] += 1;
                st.idle_transitions += 1;
                if matches!(st.policy, Policy::Pct(_) | Policy::Fixed(_)) {
                    let low = st.prio.iter().min().copied().unwrap_or(0) - 1;
                    st.prio[w] = low;
                }
            }
            Point::Recv => {}
            Point::Steal => st.steals += 1,
            Point::Send => {
                st.sends_outstanding += 1;
                for c in st.idle_cycles.iter_mut() {
                    *c = 0;
                }
            }
            Point::QuitNow => {
                if st.sends_outstanding > 0 {
                    st.quit_with_work_queued += 1;
                }
                for c in st.idle_cycles.iter_mut() {
                    *c = 0;
                }
            }
            _ => {
                for c in st.idle_cycles.iter_mut() {
                    *c = 0;
                }
            }
        }
        if p == Point::WorkerStart {
            st.started += 1;
        }
        if p == Point::WorkerExit {
            st.finished[w] = true;
            st.arrived[w] = false;
            if st.turn.is_none() && st.started == st.n {
                let all = (0..st.n).all(|x| st.finished[x] || st.arrived[x]);
                if all {
                    Sched::pick_next(&mut st);
                }
            }
            self.cv.notify_all();
            return false;
        }
        // definite livelock: every live worker has gone through the idle
        // loop several times since anybody pushed, popped work, changed the
        // counter or the quit flag
        let live: Vec<usize> = (0..st.n).filter(|&x| !st.finished[x]).collect();
        if !live.is_empty() && live.iter().all(|&x| st.idle_cycles[x] >= 4) {
            let witness = json!({
                "kind": "livelock",
                "steps": st.steps,
                "live_workers": live,
                "last_points": st.tail.iter().map(|(w, p)| format!("{}:{:?}", w, p)).collect::<Vec<_>>(),
                "decisions": st.decisions.iter().map(|d| d.to_string()).collect::<Vec<_>>().join(""),
            });
            drop(st);
            (self.on_abort)("livelock", witness);
            return p == Point::IdleSleep;
        }
        if st.steps > st.step_bound {
            let witness = json!({
                "kind": "step-bound", "steps": st.steps,
                "last_points": st.tail.iter().map(|(w, p)| format!("{}:{:?}", w, p)).collect::<Vec<_>>(),
            });
            drop(st);
            (self.on_abort)("step-bound", witness);
            return p == Point::IdleSleep;
        }
        st.arrived[w] = true;
        if st.turn.is_none() && st.started == st.n {
            let all = (0..st.n).all(|x| st.finished[x] || st.arrived[x]);
            if all {
                Sched::pick_next(&mut st);
                self.cv.notify_all();
            }
        }
        while st.turn != Some(w) {
            st = self.cv.wait(st).unwrap();
        }
        st.turn = None;
        st.arrived[w] = false;
        p == Point::IdleSleep
    }
}

#[derive(Clone, Debug)]
pub struct RunSpec {
    pub tree: Tree,
    pub roots: Vec<String>,
    pub workers: usize,
    pub policy: Policy,
    pub sched_seed: u64,
    pub quit_at: Option<usize>,
    /// preemption points (hook step numbers) of a `Policy::Fixed` run
    pub change_points: Vec<u64>,
    /// the visitor answers error entries with `WalkState::Skip`
    pub skip_on_error: bool,
}

impl RunSpec {
    pub fn to_json(&self) -> Value {
        json!({
            "tree": self.tree.to_json(), "roots": self.roots, "workers": self.workers,
            "policy": self.policy.name(), "sched_seed": self.sched_seed, "quit_at": self.quit_at,
            "change_points": self.change_points, "skip_on_error": self.skip_on_error,
        })
    }
    pub fn from_json(v: &Value) -> RunSpec {
        let pol = v["policy"].as_str().unwrap_or("uniform");
        let policy = if let Some(d) = pol.strip_prefix("pct") {
            Policy::Pct(d.parse().unwrap_or(1))
        } else if let Some(w) = pol.strip_prefix("starve") {
            Policy::Starve(w.parse().unwrap_or(0))
        } else if let Some(p) = pol.strip_prefix("fixed") {
            Policy::Fixed(p.parse().unwrap_or(0))
        } else {
            Policy::Uniform
        };
        RunSpec {
            tree: Tree::from_json(&v["tree"]),
            roots: v["roots"].as_array().map(|a| a.iter().map(|x| x.as_str().unwrap_or("").to_string()).collect()).unwrap_or_else(|| vec![String::new()]),
            workers: v["workers"].as_u64().unwrap_or(2) as usize,
            policy,
            sched_seed: v["sched_seed"].as_u64().unwrap_or(0),
            quit_at: v["quit_at"].as_u64().map(|x| x as usize),
            change_points: v["change_points"]
                .as_array()
                .map(|a| a.iter().filter_map(|x| x.as_u64()).collect())
                .unwrap_or_default(),
            skip_on_error: v["skip_on_error"].as_bool().unwrap_or(false),
        }
    }
}

/// Trees that force stealing: a deep chain plus a wide directory, several
/// roots so that initial work is spread.
pub fn gen_tree(rng: &mut Rng) -> (Tree, Vec<String>) {
    let mut t = Tree::default();
    let shape = rng.below(5);
    let mut dirs = vec![];
    match shape {
        0 => {
            // chain + wide
            let mut p = String::from("chain");
            t.nodes.push(Node { path: p.clone(), kind: Kind::Dir });
            dirs.push(p.clone());
            for i in 0..rng.range(1, 6) {
                p = format!("{}/c{}", p, i);
                t.nodes.push(Node { path: p.clone(), kind: Kind::Dir });
            }
            t.nodes.push(Node { path: "wide".into(), kind: Kind::Dir });
            dirs.push("wide".into());
            for i in 0..rng.range(1, 10) {
                let k = if i % 3 == 0 { Kind::Dir } else { Kind::File(1) };
                t.nodes.push(Node { path: format!("wide/w{}", i), kind: k });
            }
        }
        1 => {
            // single directory, nearly empty
            t.nodes.push(Node { path: "d".into(), kind: Kind::Dir });
            dirs.push("d".into());
            if rng.bool() {
                t.nodes.push(Node { path: "d/f".into(), kind: Kind::File(1) });
            }
        }
        _ => {
            let cfg = treegen::TreeCfg {
                max_depth: rng.range(1, 3),
                max_fanout: rng.range(1, 4),
                links: false,
                max_nodes: 40,
            };
            t = treegen::gen_tree(rng, &cfg);
            // keep it small
            t.nodes.truncate(40);
            for n in &t.nodes {
                if n.kind == Kind::Dir && !n.path.contains('/') {
                    dirs.push(n.path.clone());
                }
            }
        }
    }
    // links to the directory they live in (and to its parent): with links
    // followed each is a loop, reported as one error entry and not descended
    if rng.chance(1, 4) {
        let all_dirs: Vec<String> =
            t.nodes.iter().filter(|n| n.kind == Kind::Dir).map(|n| n.path.clone()).collect();
        for i in 0..rng.range(1, 2) {
            if let Some(d) = all_dirs.get(rng.below(all_dirs.len().max(1))) {
                let p = format!("{}/self{}", d, i);
                let target = if rng.bool() { ".".to_string() } else { format!("../{}", d.rsplit('/').next().unwrap_or(d)) };
                if !t.nodes.iter().any(|n| n.path == p) {
                    t.nodes.push(Node { path: p, kind: Kind::Link(target) });
                }
            }
        }
    }
    // dangling links: error entries in the middle of a directory listing
    if rng.chance(1, 3) {
        let all_dirs: Vec<String> =
            t.nodes.iter().filter(|n| n.kind == Kind::Dir).map(|n| n.path.clone()).collect();
        for i in 0..rng.range(1, 3) {
            if let Some(d) = all_dirs.get(rng.below(all_dirs.len().max(1))) {
                let p = format!("{}/{}dangling{}", d, rng.pick(&["", "m", "zz"]), i);
                if !t.nodes.iter().any(|n| n.path == p) {
                    t.nodes.push(Node { path: p, kind: Kind::Link("no/such/target".into()) });
                }
            }
        }
    }
    let roots = if dirs.len() >= 2 && rng.chance(1, 2) {
        dirs.iter().take(rng.range(2, dirs.len().min(4))).cloned().collect()
    } else {
        vec![String::new()]
    };
    (t, roots)
}

fn builder(base: &Path, roots: &[String], workers: usize) -> WalkBuilder {
    let mut b = WalkBuilder::new(base.join(&roots[0]));
    for r in &roots[1..] {
        b.add(base.join(r));
    }
    // links are followed: a dangling link is then an *error* entry, which a
    // visitor may answer with Skip (documented to have no effect for
    // anything that is not a directory)
    b.standard_filters(false).follow_links(true).threads(workers);
    b
}

/// Error entries are identified by the path they are about (the serial and
/// the parallel walker word their messages differently).
fn err_key(base: &Path, e: &ignore::Error) -> String {
    let msg = e.to_string();
    let b = base.to_string_lossy();
    match msg.find(&*b) {
        Some(i) => {
            let rest = &msg[i + b.len()..];
            let end = rest
                .find(':')
                .into_iter()
                .chain(rest.find(" points to"))
                .min()
                .unwrap_or(rest.len());
            format!("<error>{}", rest[..end].trim_start_matches('/'))
        }
        None => format!("<error>{}", msg),
    }
}

pub fn expected_entries(base: &Path, roots: &[String]) -> BTreeMap<String, usize> {
    let base_of_err = base;
    let mut m = BTreeMap::new();
    for r in builder(base, roots, 1).build() {
        match r {
            Ok(d) => {
                let p = d.path().strip_prefix(base).unwrap_or(d.path()).to_string_lossy().into_owned();
                *m.entry(p).or_insert(0) += 1;
            }
            Err(e) => {
                *m.entry(err_key(base_of_err, &e)).or_insert(0) += 1;
            }
        }
    }
    m
}

pub struct RunOutcome {
    pub visited: Vec<(usize, String)>,
    pub steps: u64,
    pub decisions_hash: u64,
    pub steals: u64,
    pub idle_transitions: u64,
    pub quit_with_work_queued: u64,
}

/// The `pi`-th (mod n!) ordering of the priorities 100..100+n.
fn nth_priority_order(n: usize, pi: usize) -> Vec<i64> {
    let mut pool: Vec<i64> = (0..n as i64).map(|x| x + 100).collect();
    let mut out = vec![];
    let mut k = pi;
    for i in (1..=n).rev() {
        out.push(pool.remove(k % i));
        k /= i;
    }
    out
}

/// One scheduled walk. `on_abort` is called from a worker thread when a
/// definite livelock or the step bound is hit; it must not return normally
/// in the child process (it exits the process).
pub fn scheduled_walk(
    spec: &RunSpec,
    base: &Path,
    nentries: usize,
    on_abort: Box<dyn Fn(&str, Value) + Send + Sync>,
) -> RunOutcome {
    let n = spec.workers;
    let mut rng = Rng::new(spec.sched_seed);
    let est = 30 * (nentries + n) as u64 + 20;
    let (prio, change_points) = match spec.policy {
        Policy::Pct(d) => {
            let mut pr: Vec<i64> = (0..n as i64).map(|x| x + 100).collect();
            rng.shuffle(&mut pr);
            let cps: Vec<u64> = (0..d).map(|_| 1 + rng.below(est as usize) as u64).collect();
            (pr, cps)
        }
        Policy::Fixed(pi) => (nth_priority_order(n, pi), spec.change_points.clone()),
        _ => (vec![0; n], vec![]),
    };
    let sched = Arc::new(Sched {
        st: Mutex::new(St {
            n,
            started: 0,
            arrived: vec![false; n],
            finished: vec![false; n],
            turn: None,
            steps: 0,
            idle_cycles: vec![0; n],
            decisions: vec![],
            rng,
            policy: spec.policy,
            prio,
            change_points,
            tail: VecDeque::new(),
            step_bound: 200 * (nentries + n) as u64 + 10_000,
            steals: 0,
            idle_transitions: 0,
            quit_with_work_queued: 0,
            sends_outstanding: 0,
        }),
        cv: Condvar::new(),
        on_abort,
    });
    let s2 = sched.clone();
    verif::set_hook(Some(Arc::new(move |w, p| s2.hook(w, p))));
    let visited: Arc<Mutex<Vec<(usize, String)>>> = Arc::new(Mutex::new(vec![]));
    let quit_at = spec.quit_at;
    let skip_on_error = spec.skip_on_error;
    let base2: PathBuf = base.to_path_buf();
    let mut next_worker = 0usize;
    builder(base, &spec.roots, n).build_parallel().run(|| {
        let visited = visited.clone();
        let base = base2.clone();
        let me = next_worker;
        next_worker += 1;
        let sched = sched.clone();
        Box::new(move |r| {
            // a visit is progress: nobody is spinning idly for nothing
            {
                let mut st = sched.st.lock().unwrap();
                for c in st.idle_cycles.iter_mut() {
                    *c = 0;
                }
                st.sends_outstanding -= 1;
            }
            let mut v = visited.lock().unwrap();
            let idx = v.len();
            let mut is_err = false;
            match r {
                Ok(d) => {
                    let p = d.path().strip_prefix(&base).unwrap_or(d.path()).to_string_lossy().into_owned();
                    v.push((me, p));
                }
                Err(e) => {
                    is_err = true;
                    v.push((me, err_key(&base, &e)));
                }
            }
            if quit_at == Some(idx) {
                WalkState::Quit
            } else if is_err && skip_on_error {
                WalkState::Skip
            } else {
                WalkState::Continue
            }
        })
    });
    verif::set_hook(None);
    let st = sched.st.lock().unwrap();
    let out = RunOutcome {
        visited: visited.lock().unwrap().clone(),
        steps: st.steps,
        decisions_hash: fnv(&st.decisions),
        steals: st.steals,
        idle_transitions: st.idle_transitions,
        quit_with_work_queued: st.quit_with_work_queued,
    };
    out
}

fn judge(spec: &RunSpec, expected: &BTreeMap<String, usize>, out: &RunOutcome, rep: &mut Report) {
    let mut counts: BTreeMap<String, usize> = BTreeMap::new();
    for (_, p) in &out.visited {
        *counts.entry(p.clone()).or_insert(0) += 1;
    }
    let replay = || json!({"spec": spec.to_json(), "visited": out.visited.iter().map(|(w, p)| format!("{}:{}", w, p)).collect::<Vec<_>>()});
    if let Some((p, c)) = counts.iter().find(|(_, &c)| c > 1) {
        rep.violation(
            &format!("C07:{}:entry-visited-twice", if spec.quit_at.is_some() { "quit" } else { "noquit" }),
            format!("entry {:?} handed to a visitor {} times ({} workers, policy {})", p, c, spec.workers, spec.policy.name()),
            replay,
        );
        return;
    }
    if let Some(p) = counts.keys().find(|p| !expected.contains_key(*p)) {
        rep.violation(
            "C07:entry-not-in-tree",
            format!("visited {:?} which the serial walk does not yield", p),
            replay,
        );
        return;
    }
    if spec.quit_at.is_none() {
        if let Some(p) = expected.keys().find(|p| !counts.contains_key(*p)) {
            rep.violation(
                "C07:noquit:entry-lost",
                format!("entry {:?} was never handed to a visitor ({} workers, policy {}, {} of {} visited)",
                        p, spec.workers, spec.policy.name(), counts.len(), expected.len()),
                replay,
            );
        }
    }
}

/// Run one scheduled walk in this process, account for it and judge it.
fn exec_spec(
    spec: &RunSpec,
    base: &Path,
    nentries: usize,
    expected: &BTreeMap<String, usize>,
    report: &Arc<Mutex<Report>>,
    out_path: &str,
) -> u64 {
    let spec = spec.clone();
    let workers = spec.workers;
    let quit_at = spec.quit_at;
    let out_path = out_path.to_string();
    let steps;
    {
            let rep2 = report.clone();
            let spec2 = spec.clone();
            let outp = out_path.clone();
            let on_abort: Box<dyn Fn(&str, Value) + Send + Sync> = Box::new(move |kind, witness| {
                let mut rep = rep2.lock().unwrap();
                if kind == "livelock" {
                    rep.violation(
                        &format!("C07:{}:livelock", if spec2.quit_at.is_some() { "quit" } else { "noquit" }),
                        format!(
                            "all live workers spin in the idle loop and nobody can make progress ({} workers, policy {}, quit_at {:?}, after {} steps)",
                            spec2.workers, spec2.policy.name(), spec2.quit_at, witness["steps"]
                        ),
                        || json!({"spec": spec2.to_json(), "witness": witness}),
                    );
                } else {
                    rep.inconclusive += 1;
                    rep.notes.push(format!("step bound exceeded without the livelock signature: {}", witness));
                }
                rep.count("runs_aborted");
                let j = rep.to_json();
                let _ = fs::write(&outp, serde_json::to_string(&j).unwrap());
                // real threads are left spinning: leave the process
                std::process::exit(0);
            });
            let out = scheduled_walk(&spec, &base, nentries, on_abort);
            let mut rep = report.lock().unwrap();
            rep.evaluations += 1;
            rep.count("scheduled_runs");
            rep.count(&format!("policy_{}", match spec.policy { Policy::Uniform => "uniform", Policy::Pct(_) => "pct", Policy::Starve(_) => "starve", Policy::Fixed(_) => "fixed" }));
            rep.count(&format!("workers_{}", workers));
            if quit_at.is_some() {
                rep.count("runs_with_quit_injected");
            }
            rep.add("hook_steps", out.steps);
            rep.add("steals_attempted", out.steals);
            rep.add("idle_transitions", out.idle_transitions);
            rep.add("quit_while_work_queued", out.quit_with_work_queued);
            rep.add("visits_observed", out.visited.len() as u64);
            rep.max("max_steps_in_a_run", out.steps);
            let distinct_workers: std::collections::BTreeSet<usize> = out.visited.iter().map(|(w, _)| *w).collect();
            if distinct_workers.len() > 1 {
                rep.count("runs_where_several_workers_visited");
            }
            rep.nontrivial(out.decisions_hash);
            judge(&spec, &expected, &out, &mut rep);
            // one sample of the sweep, the others from the randomly scheduled runs
            let is_sweep = matches!(spec.policy, Policy::Fixed(_));
            let have_sweep = rep.samples.iter().any(|s| s["policy"].as_str().map_or(false, |p| p.starts_with("fixed")));
            if rep.samples.len() < 3 && !(is_sweep && have_sweep) && (is_sweep || out.steps > 20) {
                rep.samples.push(json!({
                    "tree_nodes": spec.tree.nodes.len(), "roots": spec.roots, "workers": spec.workers,
                    "policy": spec.policy.name(), "quit_at": spec.quit_at, "hook_steps": out.steps,
                    "visits": out.visited.iter().take(8).map(|(w, p)| format!("w{}:{}", w, p)).collect::<Vec<_>>(),
                }));
            }
        
        steps = out.steps;
    }
    steps
}

/// The tiny trees of the systematic sweep.
fn sweep_trees(thorough: bool) -> Vec<(Tree, Vec<String>)> {
    let mk = |items: &[(&str, bool)]| {
        let mut t = Tree::default();
        for (p, is_dir) in items {
            t.nodes.push(Node {
                path: p.to_string(),
                kind: if *is_dir { Kind::Dir } else { Kind::File(1) },
            });
        }
        t
    };
    let mut v = vec![
        (mk(&[("d", true), ("d/e", true), ("d/e/f", false), ("d/g", false), ("h", false)]), vec![String::new()]),
        (mk(&[("a", true), ("b", true), ("a/x", false), ("b/y", false)]), vec!["a".to_string(), "b".to_string()]),
        (mk(&[("c", true), ("c/c", true), ("c/c/c", true), ("c/c/c/f", false), ("k", false)]), vec![String::new()]),
    ];
    if thorough {
        v.push((
            mk(&[("w", true), ("w/1", false), ("w/2", false), ("w/3", false), ("w/d", true), ("w/d/f", false)]),
            vec![String::new()],
        ));
        v.push((
            mk(&[("a", true), ("b", true), ("c", true), ("a/x", false), ("c/z", true), ("c/z/f", false)]),
            vec!["a".to_string(), "b".to_string(), "c".to_string()],
        ));
    }
    v
}

/// Systematic part: on a few tiny trees, for 2 and 3 workers (4 in the
/// thorough tier), EVERY priority order, the quit request injected at EVERY
/// visit index (and not at all), and a preemption (the running worker drops
/// to the lowest priority) at EVERY hook step - and, in the thorough tier, at
/// every PAIR of hook steps. Together with the forced yields at the idle
/// sleep this enumerates the schedules of these walks up to preemption bound
/// 1 (quick) / 2 (thorough) at hook granularity. Work is sharded by item
/// index over the child processes.
fn sweep(seed: u64, shard: usize, nshards: usize, thorough: bool, report: &Arc<Mutex<Report>>, out_path: &str) {
    let mut item = 0usize;
    let mine = |item: &mut usize| {
        *item += 1;
        (*item - 1) % nshards.max(1) == shard
    };
    for (ti, (tree, roots)) in sweep_trees(thorough).into_iter().enumerate() {
        let (private, base) = treegen::fresh_dir("c07s", mix(&[seed, 0x5eed, ti as u64, shard as u64]) & 0xffffffff);
        if tree.materialise(&base).is_err() {
            report.lock().unwrap().inconclusive += 1;
            let _ = fs::remove_dir_all(&private);
            continue;
        }
        let expected = expected_entries(&base, &roots);
        let nentries: usize = expected.values().sum();
        let max_workers = if thorough && ti == 0 { 4 } else { 3 };
        for workers in 2..=max_workers {
            let nperm: usize = (1..=workers).product();
            for pi in 0..nperm {
                let mut quits: Vec<Option<usize>> = vec![None];
                quits.extend((0..nentries).map(Some));
                for quit_at in quits {
                    let spec0 = RunSpec {
                        tree: tree.clone(),
                        roots: roots.clone(),
                        workers,
                        policy: Policy::Fixed(pi),
                        sched_seed: 0,
                        quit_at,
                        change_points: vec![],
                        skip_on_error: pi % 2 == 1,
                    };
                    // the base schedule is run by every shard: its length
                    // bounds the preemption points
                    let s0 = exec_spec(&spec0, &base, nentries, &expected, report, out_path);
                    report.lock().unwrap().count("sweep_base_schedules");
                    let horizon = s0 + 8;
                    for k in 1..=horizon {
                        if !mine(&mut item) {
                            continue;
                        }
                        let mut sp = spec0.clone();
                        sp.change_points = vec![k];
                        exec_spec(&sp, &base, nentries, &expected, report, out_path);
                        report.lock().unwrap().count("sweep_single_preemption_runs");
                    }
                    // pairs: thorough tier, the first and the last priority
                    // order, quit at none / first / last visit
                    let pair_quit = quit_at.is_none() || quit_at == Some(0) || quit_at == Some(nentries.saturating_sub(1));
                    if thorough && workers <= 3 && (pi == 0 || pi + 1 == nperm) && pair_quit {
                        for k1 in 1..=horizon {
                            for k2 in (k1 + 1)..=horizon {
                                if !mine(&mut item) {
                                    continue;
                                }
                                let mut sp = spec0.clone();
                                sp.change_points = vec![k1, k2];
                                exec_spec(&sp, &base, nentries, &expected, report, out_path);
                                report.lock().unwrap().count("sweep_double_preemption_runs");
                            }
                        }
                    }
                }
            }
        }
        let _ = fs::remove_dir_all(&private);
    }
}

/// Child process: runs `nruns` scheduled walks and writes a report.
pub fn child(seed: u64, nruns: usize, out_path: &str, thorough: bool, shard: usize, nshards: usize) {
    let report = Arc::new(Mutex::new(Report::new()));
    report.lock().unwrap().export_hashes = true;
    if nshards > 0 {
        sweep(seed, shard, nshards, thorough, &report, out_path);
    }
    let mut rng = Rng::new(seed);
    let mut done = 0usize;
    let mut tree_no = 0u64;
    let out_path = out_path.to_string();
    while done < nruns {
        let (tree, roots) = gen_tree(&mut rng);
        tree_no += 1;
        let (private, base) = treegen::fresh_dir("c07", mix(&[seed, tree_no]) & 0xffffffff);
        if tree.materialise(&base).is_err() {
            report.lock().unwrap().inconclusive += 1;
            let _ = fs::remove_dir_all(&private);
            continue;
        }
        let expected = expected_entries(&base, &roots);
        let nentries: usize = expected.values().sum();
        // schedules per tree
        let per_tree = if thorough { 40 } else { 12 };
        for r in 0..per_tree {
            if done >= nruns {
                break;
            }
            let workers = rng.range(2, 4);
            let policy = match rng.below(6) {
                0 | 1 => Policy::Uniform,
                2 => Policy::Pct(1),
                3 => Policy::Pct(2),
                4 => Policy::Pct(3),
                _ => Policy::Starve(rng.below(workers)),
            };
            // quit injected at every visit index for small trees (spread over
            // the runs of this tree), sampled otherwise
            let quit_at = if r % 2 == 1 && nentries > 0 {
                Some(if nentries <= per_tree / 2 { (r / 2) % nentries } else { rng.below(nentries) })
            } else {
                None
            };
            let spec = RunSpec {
                tree: tree.clone(),
                roots: roots.clone(),
                workers,
                policy,
                sched_seed: mix(&[seed, tree_no, r as u64]),
                quit_at,
                change_points: vec![],
                skip_on_error: rng.bool(),
            };
            exec_spec(&spec, &base, nentries, &expected, &report, &out_path);
            done += 1;
        }
        let _ = fs::remove_dir_all(&private);
    }
    let rep = report.lock().unwrap();
    let _ = fs::write(&out_path, serde_json::to_string(&rep.to_json()).unwrap());
}

/// Real-thread stress: no serialisation, the hook injects yields and tiny
/// sleeps at random points.
pub fn stress(seed: u64, nruns: usize, rep: &mut Report) {
    let mut rng = Rng::new(seed ^ 0x5712e55);
    for i in 0..nruns {
        let (tree, roots) = gen_tree(&mut rng);
        let (private, base) = treegen::fresh_dir("c07s", mix(&[seed, i as u64]) & 0xffffffff);
        if tree.materialise(&base).is_err() {
            let _ = fs::remove_dir_all(&private);
            continue;
        }
        let expected = expected_entries(&base, &roots);
        let workers = rng.pick(&[2usize, 3, 4, 8, 16]);
        let noise = Arc::new(Mutex::new(Rng::new(mix(&[seed, i as u64, 9]))));
        let n2 = noise.clone();
        verif::set_hook(Some(Arc::new(move |_w, p| {
            let r = n2.lock().unwrap().below(16);
            match r {
                0 | 1 => std::thread::yield_now(),
                2 => std::thread::sleep(std::time::Duration::from_micros(20)),
                _ => {}
            }
            // shorten the idle sleep most of the time
            p == Point::IdleSleep && r < 12
        })));
        let nentries: usize = expected.values().sum();
        let quit_at = if rng.chance(1, 3) && nentries > 0 { Some(rng.below(nentries)) } else { None };
        let visited: Arc<Mutex<Vec<(usize, String)>>> = Arc::new(Mutex::new(vec![]));
        let base2 = base.clone();
        let (tx, rx) = std::sync::mpsc::channel();
        let v2 = visited.clone();
        let roots2 = roots.clone();
        let handle = std::thread::spawn(move || {
            builder(&base2, &roots2, workers).build_parallel().run(|| {
                let visited = v2.clone();
                let base = base2.clone();
                Box::new(move |r| {
                    let mut v = visited.lock().unwrap();
                    let idx = v.len();
                    match r {
                        Ok(d) => {
                            let p = d.path().strip_prefix(&base).unwrap_or(d.path()).to_string_lossy().into_owned();
                            v.push((0, p));
                        }
                        Err(e) => v.push((0, err_key(&base, &e))),
                    }
                    if quit_at == Some(idx) { WalkState::Quit } else { WalkState::Continue }
                })
            });
            let _ = tx.send(());
        });
        match rx.recv_timeout(std::time::Duration::from_secs(30)) {
            Ok(()) => {
                let _ = handle.join();
                verif::set_hook(None);
                rep.evaluations += 1;
                rep.count("stress_runs");
                let spec = RunSpec { tree: tree.clone(), roots: roots.clone(), workers, policy: Policy::Uniform, sched_seed: 0, quit_at, change_points: vec![], skip_on_error: false };
                let out = RunOutcome { visited: visited.lock().unwrap().clone(), steps: 0, decisions_hash: 0, steals: 0, idle_transitions: 0, quit_with_work_queued: 0 };
                rep.add("stress_visits", out.visited.len() as u64);
                judge(&spec, &expected, &out, rep);
            }
            Err(_) => {
                // a wall-clock deadline is never a verdict
                rep.inconclusive += 1;
                rep.notes.push(format!("stress walk did not finish within 30 s ({} workers, {} entries); threads left behind", workers, nentries));
                verif::set_hook(None);
                let _ = fs::remove_dir_all(&private);
                return;
            }
        }
        let _ = fs::remove_dir_all(&private);
    }
}

/// `rgmon c07-miri`: a few unscheduled walks of a tiny tree with 2-3 real
/// threads, meant to be run under Miri (its scheduler, weak-memory emulation
/// and data-race detector examine the atomics / deque protocol itself).
pub fn miri_walks(seed: u64) -> Report {
    let mut rep = Report::new();
    let mut rng = Rng::new(seed);
    let mut t = Tree::default();
    t.nodes.push(Node { path: "d".into(), kind: Kind::Dir });
    t.nodes.push(Node { path: "d/e".into(), kind: Kind::Dir });
    t.nodes.push(Node { path: "d/e/f".into(), kind: Kind::File(1) });
    t.nodes.push(Node { path: "d/g".into(), kind: Kind::File(1) });
    t.nodes.push(Node { path: "h".into(), kind: Kind::File(1) });
    let (private, base) = treegen::fresh_dir("c07m", seed & 0xffff);
    if t.materialise(&base).is_err() {
        rep.inconclusive += 1;
        return rep;
    }
    let roots = vec![String::new()];
    let expected = expected_entries(&base, &roots);
    for round in 0..2 {
        let workers = 2 + (rng.below(2));
        let quit_at = if round == 1 { Some(rng.below(3)) } else { None };
        let visited: Arc<Mutex<Vec<(usize, String)>>> = Arc::new(Mutex::new(vec![]));
        let base2 = base.clone();
        let v2 = visited.clone();
        builder(&base, &roots, workers).build_parallel().run(|| {
            let visited = v2.clone();
            let base = base2.clone();
            Box::new(move |r| {
                let mut v = visited.lock().unwrap();
                let idx = v.len();
                match r {
                    Ok(d) => {
                        let p = d.path().strip_prefix(&base).unwrap_or(d.path()).to_string_lossy().into_owned();
                        v.push((0, p));
                    }
                    Err(e) => v.push((0, err_key(&base, &e))),
                }
                if quit_at == Some(idx) { WalkState::Quit } else { WalkState::Continue }
            })
        });
        rep.evaluations += 1;
        rep.count("miri_walks");
        let spec = RunSpec { tree: t.clone(), roots: roots.clone(), workers, policy: Policy::Uniform, sched_seed: seed, quit_at, change_points: vec![], skip_on_error: false };
        let out = RunOutcome { visited: visited.lock().unwrap().clone(), steps: 0, decisions_hash: mix(&[seed, round as u64]), steals: 0, idle_transitions: 0, quit_with_work_queued: 0 };
        rep.nontrivial(out.decisions_hash);
        judge(&spec, &expected, &out, &mut rep);
    }
    let _ = fs::remove_dir_all(&private);
    rep
}

/// Parent: shard the scheduled runs over child processes.
pub fn run(ctx: &Ctx) -> Report {
    let total = ctx.cases(20_000, 1_000_000);
    let procs = ctx.jobs.max(1);
    let per = (total + procs - 1) / procs;
    let exe = std::env::current_exe().expect("current exe");
    let dir = crate::run::scratch_dir();
    let mut children = vec![];
    for i in 0..procs {
        let out = dir.join(format!("c07-child-{}.json", i));
        let _ = fs::remove_file(&out);
        let child = std::process::Command::new(&exe)
            .arg("c07-child")
            .arg("--seed")
            .arg(mix(&[ctx.seed, 7, i as u64]).to_string())
            .arg("--runs")
            .arg(per.to_string())
            .arg("--tier")
            .arg(if ctx.tier == Tier::Thorough { "thorough" } else { "quick" })
            .arg("--shard")
            .arg(format!("{}/{}", i, procs))
            .arg("--out")
            .arg(&out)
            .stdout(std::process::Stdio::null())
            .spawn();
        children.push((child, out));
    }
    let mut total_rep = Report::new();
    let deadline = std::time::Instant::now() + std::time::Duration::from_secs(ctx.time_cap_s.min(3000));
    for (child, out) in children {
        let mut child = match child {
            Ok(c) => c,
            Err(e) => {
                total_rep.inconclusive += 1;
                total_rep.notes.push(format!("spawn failed: {}", e));
                continue;
            }
        };
        loop {
            match child.try_wait() {
                Ok(Some(_)) => break,
                Ok(None) => {
                    if std::time::Instant::now() > deadline {
                        let _ = child.kill();
                        let _ = child.wait();
                        total_rep.inconclusive += 1;
                        total_rep.notes.push("child watchdog expired (inconclusive)".into());
                        break;
                    }
                    std::thread::sleep(std::time::Duration::from_millis(50));
                }
                Err(_) => break,
            }
        }
        match fs::read_to_string(&out).ok().and_then(|t| serde_json::from_str::<Value>(&t).ok()) {
            Some(v) => total_rep.merge(report_from_json(&v)),
            None => {
                total_rep.inconclusive += 1;
                total_rep.notes.push("child left no report".into());
            }
        }
        let _ = fs::remove_file(&out);
    }
    // real-thread stress in this process
    let nstress = ctx.cases(600, 5000);
    stress(ctx.seed, nstress, &mut total_rep);
    total_rep
}

pub fn report_from_json(v: &Value) -> Report {
    let mut r = Report::new();
    r.evaluations = v["evaluations"].as_u64().unwrap_or(0);
    // distinct hashes are not transported; approximate by count with fresh ids
    let d = v["distinct_hashes"].as_array();
    if let Some(d) = d {
        for h in d {
            if let Some(x) = h.as_u64() {
                r.distinct.insert(x);
            }
        }
    }
    if let Some(c) = v["counters"].as_object() {
        for (k, x) in c {
            r.counters.insert(k.clone(), x.as_u64().unwrap_or(0));
        }
    }
    if let Some(s) = v["samples"].as_array() {
        r.samples = s.iter().take(2).cloned().collect();
    }
    if let Some(vs) = v["violations"].as_array() {
        for x in vs {
            r.violations.push(crate::report::Violation {
                signature: x["signature"].as_str().unwrap_or("").to_string(),
                what: x["what"].as_str().unwrap_or("").to_string(),
                replay: x["replay"].clone(),
            });
        }
    }
    if let Some(c) = v["violation_counts"].as_object() {
        for (k, x) in c {
            r.violation_counts.insert(k.clone(), x.as_u64().unwrap_or(0));
        }
    }
    r.inconclusive = v["inconclusive"].as_u64().unwrap_or(0);
    if let Some(n) = v["notes"].as_array() {
        r.notes = n.iter().filter_map(|x| x.as_str().map(|s| s.to_string())).collect();
    }
    r
}

pub fn replay(v: &Value) -> Report {
    let report = Arc::new(Mutex::new(Report::new()));
    let spec = RunSpec::from_json(&v["spec"]);
    let (private, base) = treegen::fresh_dir("c07r", 0);
    if spec.tree.materialise(&base).is_ok() {
        let expected = expected_entries(&base, &spec.roots);
        let nentries: usize = expected.values().sum();
        let rep2 = report.clone();
        let spec2 = spec.clone();
        let on_abort: Box<dyn Fn(&str, Value) + Send + Sync> = Box::new(move |kind, witness| {
            let mut rep = rep2.lock().unwrap();
            rep.violation(&format!("C07:{}", kind), format!("{}", witness), || json!({"spec": spec2.to_json()}));
            println!("{}", serde_json::to_string_pretty(&rep.to_json()).unwrap());
            std::process::exit(1);
        });
        let out = scheduled_walk(&spec, &base, nentries, on_abort);
        judge(&spec, &expected, &out, &mut report.lock().unwrap());
    }
    let _ = fs::remove_dir_all(&private);
    let r = report.lock().unwrap().clone();
    r
}
