//! C13 — multi-line search reports exactly the lines covered by the
//! pattern's successive leftmost matches over the whole input.

use regex_automata::Input;
use regex_syntax::hir::Hir;
use serde_json::{json, Value};

use crate::{
    c01, inputgen,
    model::{compare, flatten, grep_model, log_invariants, split_lines, Line, Term},
    oracle::{self, Case, Oracle, PatFlags},
    patgen,
    report::{esc, esc_short, unesc, Report},
    rng::{fnv_parts, Rng},
    run::{run_leg, Leg, SearchCfg},
    sinklog::log_to_json,
    Ctx,
};

pub const ML_SHAPES: &[&str] = &[
    "L\\nL",
    "\\n",
    "(?s:.)L",
    "L$\\n^L",
    "L\\n|\\bL",
    "L|\\bL\\nL",
    "L|\\BL\\nL",
    "^L\\n",
    "L\\n+",
    "\\n\\n",
    "(?s)L.*?L",
    "L\\s+L",
    "[^a]+",
    "\\s*",
    "L?\\n?",
    "$",
    "^",
    "^$",
    "\\b",
    "^L$\\n",
    "L\\n?",
    "(?:L\\n)+",
    "L\\s*$",
    "\\s+L",
    "L|^L\\n^L",
    "(?s:L.L)",
    "\\BL|L\\n",
    "L\\n\\B",
    "\\b{start}L\\nL",
    "L(?:\\r?\\n)L",
    "\\s",
    "L\\W+L",
];

const SMALL: &[&str] = &["a", "b", "foo", "bar", "x", "ab", "ba"];

pub fn gen_ml_pattern(rng: &mut Rng, corpus: &[String]) -> String {
    match rng.weighted(&[12, 4, 2]) {
        0 => {
            let shape = rng.pick(ML_SHAPES);
            let mut s = String::new();
            for ch in shape.chars() {
                if ch == 'L' {
                    s.push_str(rng.pick(SMALL));
                } else {
                    s.push(ch);
                }
            }
            s
        }
        1 => {
            let budget = rng.range(1, 8);
            patgen::gen(rng, budget)
        }
        _ => patgen::gen_any(rng, corpus),
    }
}

/// Dense small-alphabet input so that multi-line matches are frequent.
pub fn gen_small_input(rng: &mut Rng, term: Term, nlines: usize) -> Vec<u8> {
    let toks: &[&[u8]] =
        &[b"a", b"b", b"foo", b"bar", b"x", b" ", b"ab", b"ba", b"", b"-", b"A"];
    let mut out = Vec::new();
    for i in 0..nlines {
        let n = rng.below(4);
        for _ in 0..n {
            out.extend_from_slice(rng.pick(toks));
        }
        if i + 1 == nlines && rng.chance(1, 4) {
            break;
        }
        match term {
            Term::Crlf => {
                if rng.chance(1, 6) {
                    out.push(b'\n')
                } else {
                    out.extend_from_slice(b"\r\n")
                }
            }
            _ => out.push(b'\n'),
        }
    }
    out
}

#[derive(Clone, Debug)]
pub struct Case13 {
    pub pattern: String,
    pub flags: PatFlags,
    pub cfg: SearchCfg,
    pub input: Vec<u8>,
}

impl Case13 {
    pub fn to_json(&self) -> Value {
        json!({
            "pattern": self.pattern, "flags": self.flags.to_json(),
            "cfg": self.cfg.to_json(), "input": esc(&self.input),
        })
    }
    pub fn from_json(v: &Value) -> Case13 {
        Case13 {
            pattern: v["pattern"].as_str().unwrap().to_string(),
            flags: PatFlags::from_json(&v["flags"]),
            cfg: SearchCfg::from_json(&v["cfg"]),
            input: unesc(v["input"].as_str().unwrap()),
        }
    }
}

pub fn gen_case(rng: &mut Rng, corpus: &[String]) -> Option<Case13> {
    let term = if rng.chance(1, 4) { Term::Crlf } else { Term::Lf };
    let flags = PatFlags {
        case: if rng.chance(1, 5) { Case::Insensitive } else { Case::Sensitive },
        word: false,
        whole_line: false,
        fixed: false,
        term,
        unicode: !rng.chance(1, 10),
        multiline: true,
        dotall: rng.chance(1, 5),
    };
    let pattern = gen_ml_pattern(rng, corpus);
    if patgen::excluded(&pattern) {
        return None;
    }
    let mut cfg = crate::ctxgen::gen_cfg(rng);
    cfg.term = term;
    cfg.stop_on_nonmatch = false;
    cfg.multi_line = true;
    let nlines = match rng.weighted(&[10, 5, 1]) {
        0 => rng.range(1, 8),
        1 => rng.range(9, 40),
        _ => rng.range(41, 200),
    };
    let input = if rng.chance(2, 3) {
        gen_small_input(rng, term, nlines)
    } else {
        let orc = Oracle::build(&[pattern.clone()], &flags).ok()?;
        let hirs: Vec<Hir> = c01::sampling_hirs(&[pattern.clone()], &flags, &orc);
        let refs: Vec<&Hir> = hirs.iter().collect();
        inputgen::gen_input(rng, &refs, term, nlines)
    };
    // An input that starts with a byte-order mark is searched as its
    // transcoding (C17's territory): keep it out, as C01 does.
    let mut input = input;
    if input.starts_with(b"\xef\xbb\xbf")
        || input.starts_with(b"\xff\xfe")
        || input.starts_with(b"\xfe\xff")
    {
        input.insert(0, b'x');
    }
    Some(Case13 { pattern, flags, cfg, input })
}

/// The whole-input model: which lines are covered by the successive
/// leftmost matches (search resumes at the end of the previous match, one
/// byte further after an empty match; look-around sees the whole input).
///
/// Returns (covered, number of matches, ambiguous). `ambiguous` is set when
/// some line's only claim to being covered is an empty match lying strictly
/// inside its CRLF terminator (between `\r` and `\n`): whether such a match
/// is "on" the line is not settled by the statement (line mode says no, C01;
/// the position does belong to the line's bytes), so such cases are skipped.
pub fn covered_lines(orc: &Oracle, input: &[u8], lines: &[Line]) -> (Vec<bool>, usize, bool) {
    let mut amb: Vec<usize> = vec![];
    let mut half_terminator = false;
    let mut covered = vec![false; lines.len()];
    let mut nmatches = 0;
    let mut pos = 0usize;
    let len = input.len();
    let line_of = |p: usize| -> Option<usize> {
        // index of the line containing byte position p (p < len), or the
        // unterminated last line for p == len
        if lines.is_empty() {
            return None;
        }
        if p >= len {
            let last = lines[lines.len() - 1];
            let terminated = last.content_end < last.end
                || (last.end > last.start && input[last.end - 1] == b'\n');
            return if terminated { None } else { Some(lines.len() - 1) };
        }
        let i = lines.partition_point(|l| l.end <= p);
        Some(i)
    };
    while pos < len {
        let m = match orc.re.search(&Input::new(input).span(pos..len)) {
            None => break,
            Some(m) => m,
        };
        nmatches += 1;
        let (s, e) = (m.start(), m.end());
        if s == e {
            if let Some(i) = line_of(s) {
                let inside_crlf = orc.term == Term::Crlf
                    && s > 0
                    && s < len
                    && input[s - 1] == b'\r'
                    && input[s] == b'\n';
                if inside_crlf {
                    amb.push(i);
                } else {
                    covered[i] = true;
                }
            }
            pos = e + 1;
        } else {
            // A match that takes the `\r` of a CRLF terminator without its
            // `\n` (or starts between the two): whether the `\r` of a
            // terminator is matchable at all is what "--crlf" leaves open for
            // a multi-line search - for a pattern that cannot match `\n` the
            // documented answer is the line-mode one (C02), where it is not.
            // The whole-input reading is not the specification there.
            if orc.term == Term::Crlf
                && ((e < len && input[e - 1] == b'\r' && input[e] == b'\n')
                    || (s > 0 && input[s - 1] == b'\r' && input[s] == b'\n'))
            {
                half_terminator = true;
            }
            let a = line_of(s).unwrap();
            let b = line_of(e - 1).unwrap();
            for c in covered[a..=b].iter_mut() {
                *c = true;
            }
            pos = e;
        }
    }
    let ambiguous = half_terminator || amb.iter().any(|&i| !covered[i]);
    (covered, nmatches, ambiguous)
}

/// The successive leftmost matches over the whole input (same iteration as
/// `covered_lines`).
pub fn whole_input_matches(orc: &Oracle, input: &[u8]) -> Vec<(usize, usize)> {
    let mut out = vec![];
    let mut pos = 0usize;
    let len = input.len();
    while pos < len {
        match orc.re.search(&Input::new(input).span(pos..len)) {
            None => break,
            Some(m) => {
                out.push((m.start(), m.end()));
                pos = if m.is_empty() { m.end() + 1 } else { m.end() };
            }
        }
    }
    out
}

pub fn gen_legs(rng: &mut Rng) -> Vec<Leg> {
    vec![
        Leg::Slice,
        Leg::Reader {
            cap: None,
            script: vec![],
            tail: rng.range(1, 64),
            cycle: false,
        },
        Leg::File { mmap: rng.bool() },
    ]
}

pub fn check_case(case: &Case13, legs: &[Leg], rep: &mut Report) {
    rep.evaluations += 1;
    let matcher = match oracle::build_matcher(&[case.pattern.clone()], &case.flags) {
        Ok(m) => m,
        Err(_) => {
            rep.count("patterns_rejected_by_builder");
            return;
        }
    };
    let orc = match Oracle::build(&[case.pattern.clone()], &case.flags) {
        Ok(o) => o,
        Err(_) => {
            rep.count("oracle_failed");
            return;
        }
    };
    if orc.word_boundary_context_dependent(&[case.pattern.clone()], &case.flags, &case.input) {
        // recorded under C01: what a Unicode word boundary sees next to
        // invalid UTF-8 depends on how much of the input the regex is shown
        rep.count("skipped_unicode_word_boundary_next_to_invalid_utf8");
        return;
    }
    if orc.engine_disagrees(&case.input) {
        // the regex library contradicts itself on this (pattern, input):
        // recorded once, under C01; no verdict here
        rep.count("skipped_regex_engine_disagrees_with_itself");
        return;
    }
    let term = case.cfg.term;
    let lines = split_lines(&case.input, term);
    let (covered, nmatches, ambiguous) = covered_lines(&orc, &case.input, &lines);
    if ambiguous {
        rep.count("skipped_match_boundary_inside_crlf_terminator");
        return;
    }
    let ncov = covered.iter().filter(|&&c| c).count();
    rep.add("whole_input_matches", nmatches as u64);
    rep.add("lines_covered", ncov as u64);
    rep.add("lines_total", lines.len() as u64);
    let really_ml = {
        let s = grep_searcher::SearcherBuilder::new()
            .multi_line(true)
            .line_terminator(term.to_grep())
            .build();
        s.multi_line_with_matcher(&matcher)
    };
    if really_ml {
        rep.count("cases_using_multi_line_strategy");
    } else {
        rep.count("cases_falling_back_to_line_strategy");
    }
    if ncov > 0 && ncov < lines.len() {
        rep.nontrivial(fnv_parts(&[
            case.pattern.as_bytes(),
            format!("{:?}{:?}", case.flags, case.cfg).as_bytes(),
            &case.input,
        ]));
    }
    let expect = grep_model(&case.input, &lines, &covered, &case.cfg.grep_cfg());
    for leg in legs {
        let out = run_leg(&matcher, &case.cfg, leg, &case.input, None);
        rep.count("searches_run");
        let lname = leg.short();
        if let Err(e) = &out.result {
            rep.violation(
                &format!("C13:{}:{}:search-error", term.name(), lname),
                format!("search failed: {}", e),
                || json!({"case": case.to_json(), "leg": leg.to_json()}),
            );
            continue;
        }
        let flat = flatten(&out.log, term);
        if let Err(msg) = log_invariants(&flat) {
            rep.violation(
                &format!("C13:{}:{}:line-delivered-twice-or-out-of-order", term.name(), lname),
                format!("pattern {:?}: {}", case.pattern, msg),
                || json!({"case": case.to_json(), "leg": leg.to_json(), "log": log_to_json(&out.log)}),
            );
            continue;
        }
        if let Some(i) = compare(&expect, &flat) {
            let ek = expect.get(i).map_or("none".to_string(), |e| match e {
                crate::model::Expect::Exact(ev) => ev.kind_name().to_string(),
                crate::model::Expect::ContextEither { .. } => "context".into(),
                crate::model::Expect::FinishAny => "finish".into(),
            });
            let gk = flat.get(i).map_or("none", |e| e.kind_name());
            rep.violation(
                &format!(
                    "C13:{}:{}{}:expected-{}-got-{}",
                    term.name(),
                    lname,
                    if case.cfg.invert { ":inverted" } else { "" },
                    ek,
                    gk
                ),
                format!(
                    "pattern {:?} (flags {:?}): flattened event {}: model {}, searcher {}; input {}",
                    case.pattern,
                    case.flags.cli_args(),
                    i,
                    expect.get(i).map_or("<none>".into(), |e| e.to_json().to_string()),
                    flat.get(i).map_or("<none>".into(), |e| e.to_json().to_string()),
                    esc_short(&case.input, 100),
                ),
                || {
                    json!({
                        "case": case.to_json(), "leg": leg.to_json(),
                        "covered": covered.iter().map(|&c| if c {'#'} else {'.'}).collect::<String>(),
                        "model": expect.iter().map(|e| e.to_json()).collect::<Vec<_>>(),
                        "log": log_to_json(&out.log),
                    })
                },
            );
        }
    }
    rep.sample(|| {
        json!({
            "pattern": case.pattern, "flags": case.flags.cli_args(),
            "cfg": case.cfg.to_json(), "input": esc_short(&case.input, 100),
            "covered": covered.iter().map(|&c| if c {'#'} else {'.'}).collect::<String>(),
            "whole_input_matches": nmatches,
        })
    });
}

pub fn run(ctx: &Ctx) -> Report {
    let corpus = patgen::load_corpus();
    let n = ctx.cases(30_000, 1_000_000);
    crate::par_cases(ctx, 13, n, |rng, _i, rep| {
        if let Some(case) = gen_case(rng, &corpus) {
            let legs = gen_legs(rng);
            check_case(&case, &legs, rep);
        }
    })
}

pub fn replay(v: &Value) -> Report {
    let mut rep = Report::new();
    let case = Case13::from_json(&v["case"]);
    let leg = Leg::from_json(&v["leg"]);
    check_case(&case, &[leg], &mut rep);
    rep
}
