//! C02 — results do not depend on how the input bytes reach the searcher.
//!
//! Reference leg: `search_slice` with the line-mode matcher. Every other leg
//! (reader with scripted read histories and tiny roll buffers, minimal heap
//! limit, file with and without memory maps, multi-line mode requested for a
//! pattern that cannot match the terminator) must produce the identical
//! event log.

use serde_json::{json, Value};

use crate::{
    ctxgen::{self, CtxCase},
    model::split_lines,
    report::{esc_short, Report},
    rng::{fnv_parts, Rng},
    run::{run_leg, Leg, Outcome, SearchCfg},
    sinklog::{log_to_json, Event, ReadOp},
    Ctx,
};

pub const CAPS: &[usize] = &[1, 2, 3, 5, 8, 13, 64, 4096];

/// One leg: strategy + whether multi-line mode is requested (searcher flag
/// and `-U`-style matcher).
#[derive(Clone, Debug)]
pub struct LegSpec {
    pub leg: Leg,
    pub multiline: bool,
}

pub fn gen_legs(rng: &mut Rng, case: &CtxCase, thorough: bool) -> Vec<LegSpec> {
    let input = &case.input;
    let term = case.cfg.term;
    let lines = split_lines(input, term);
    let mut legs = vec![];
    let cap = |rng: &mut Rng| Some(rng.pick(CAPS));
    // 1-byte reads
    legs.push(LegSpec {
        leg: Leg::Reader { cap: cap(rng), script: vec![], tail: 1, cycle: false },
        multiline: false,
    });
    // random 2..7 byte reads
    let script: Vec<ReadOp> =
        (0..16).map(|_| ReadOp::Chunk(rng.range(2, 7))).collect();
    legs.push(LegSpec {
        leg: Leg::Reader { cap: cap(rng), script, tail: 3, cycle: true },
        multiline: false,
    });
    // exactly one line per read / one line + 1 byte
    let plus = rng.below(2);
    let script: Vec<ReadOp> = lines
        .iter()
        .take(500)
        .map(|l| ReadOp::Chunk(l.end - l.start + plus))
        .collect();
    legs.push(LegSpec {
        leg: Leg::Reader { cap: cap(rng), script, tail: 1 << 20, cycle: false },
        multiline: false,
    });
    // default capacity, huge reads
    legs.push(LegSpec {
        leg: Leg::Reader { cap: None, script: vec![], tail: 1 << 20, cycle: false },
        multiline: false,
    });
    // files
    legs.push(LegSpec { leg: Leg::File { mmap: false }, multiline: false });
    legs.push(LegSpec { leg: Leg::File { mmap: true }, multiline: false });
    // multi-line requested for a pattern that cannot match the terminator
    legs.push(LegSpec { leg: Leg::Slice, multiline: true });
    legs.push(LegSpec {
        leg: Leg::Reader { cap: cap(rng), script: vec![], tail: rng.range(1, 9), cycle: false },
        multiline: true,
    });
    if thorough {
        for &c in CAPS {
            legs.push(LegSpec {
                leg: Leg::Reader { cap: Some(c), script: vec![], tail: rng.range(1, 12), cycle: false },
                multiline: false,
            });
        }
        legs.push(LegSpec { leg: Leg::File { mmap: true }, multiline: true });
        legs.push(LegSpec { leg: Leg::File { mmap: false }, multiline: true });
    }
    legs
}

pub fn run_spec(case: &CtxCase, spec: &LegSpec) -> Result<Outcome, String> {
    let m = case.matcher(spec.multiline)?;
    let mut cfg: SearchCfg = case.cfg.clone();
    cfg.multi_line = spec.multiline;
    Ok(run_leg(&m, &cfg, &spec.leg, &case.input, None))
}

/// Smallest heap limit with which the reader search succeeds (bisection over
/// the public API only).
pub fn minimal_heap_limit(case: &CtxCase) -> Option<usize> {
    if case.input.is_empty() || case.input.len() > 60_000 {
        return None;
    }
    let ok = |limit: usize| -> bool {
        let spec = LegSpec {
            leg: Leg::HeapLimit { limit, tail: 8192 },
            multiline: false,
        };
        match run_spec(case, &spec) {
            Ok(o) => o.result.is_ok(),
            Err(_) => false,
        }
    };
    let mut hi = case.input.len() + 1;
    if !ok(hi) {
        return None;
    }
    let mut lo = 0usize; // known to fail (0 = no heap at all)
    while hi - lo > 1 {
        let mid = (lo + hi) / 2;
        if ok(mid) {
            hi = mid;
        } else {
            lo = mid;
        }
    }
    Some(hi)
}

fn first_diff(a: &[Event], b: &[Event]) -> Option<usize> {
    let n = a.len().min(b.len());
    for i in 0..n {
        if a[i] != b[i] {
            return Some(i);
        }
    }
    if a.len() != b.len() {
        Some(n)
    } else {
        None
    }
}

/// Was the search cut short by stop_on_nonmatch (a non-selected line follows
/// a selected one)? Decided from the input with the per-line oracle, not
/// from any log.
pub fn cut_by_stop_on_nonmatch(case: &CtxCase) -> bool {
    if !case.cfg.stop_on_nonmatch {
        return false;
    }
    let orc = match crate::oracle::Oracle::build(
        &[case.pattern.clone()],
        &case.flags(false),
    ) {
        Ok(o) => o,
        Err(_) => return false,
    };
    let mut seen = false;
    for l in split_lines(&case.input, case.cfg.term) {
        let sel = orc.line_matches(&case.input[l.start..l.content_end])
            != case.cfg.invert;
        if sel {
            seen = true;
        } else if seen {
            return true;
        }
    }
    false
}

pub fn check_case(case: &CtxCase, legs: &[LegSpec], rep: &mut Report) {
    rep.evaluations += 1;
    crate::report::set_engine_probe(&[case.pattern.clone()], &case.flags(false), &[&case.input]);
    let reference = match run_spec(case, &LegSpec { leg: Leg::Slice, multiline: false }) {
        Ok(o) => o,
        Err(e) => {
            rep.count("matcher_build_failed");
            rep.notes.push(format!("matcher: {}", e));
            return;
        }
    };
    if let Err(e) = &reference.result {
        rep.violation("C02:slice:search-error", format!("slice search failed: {}", e), || {
            json!({"case": case.to_json()})
        });
        return;
    }
    let nm = reference
        .log
        .iter()
        .filter(|e| matches!(e, Event::Matched { .. }))
        .count();
    let nlines = split_lines(&case.input, case.cfg.term).len();
    if nm > 0 && nm < nlines {
        rep.nontrivial(fnv_parts(&[
            case.pattern.as_bytes(),
            format!("{:?}", case.cfg).as_bytes(),
            &case.input,
        ]));
    }
    rep.add("reference_events", reference.log.len() as u64);
    let cut = cut_by_stop_on_nonmatch(case);
    if cut {
        rep.count("cases_cut_by_stop_on_nonmatch");
    }
    let mut all: Vec<LegSpec> = legs.to_vec();
    if let Some(limit) = minimal_heap_limit(case) {
        rep.count("minimal_heap_limit_found");
        all.push(LegSpec {
            leg: Leg::HeapLimit { limit, tail: 8192 },
            multiline: false,
        });
    }
    for spec in &all {
        // --stop-on-nonmatch and multi-line mode are documented as mutually
        // exclusive ("This overrides the --multiline flag").
        if spec.multiline && case.cfg.stop_on_nonmatch {
            continue;
        }
        let out = match run_spec(case, spec) {
            Ok(o) => o,
            Err(_) => {
                rep.count("ml_matcher_build_failed");
                continue;
            }
        };
        rep.count("legs_run");
        rep.count(&format!("leg_{}{}", spec.leg.short(), if spec.multiline { "_ml" } else { "" }));
        rep.add("read_calls", out.read_calls as u64);
        if let Leg::Reader { cap: Some(c), .. } = &spec.leg {
            if case.input.len() > 2 * c {
                rep.count("reader_legs_that_had_to_roll");
            }
            if split_lines(&case.input, case.cfg.term)
                .iter()
                .any(|l| l.end - l.start > *c)
            {
                rep.count("reader_legs_that_had_to_grow");
            }
        }
        let legname = format!("{}{}", spec.leg.short(), if spec.multiline { "-ml" } else { "" });
        if let Err(e) = &out.result {
            rep.violation(
                &format!("C02:{}:search-error", legname),
                format!("{} failed: {}", spec.leg.name(), e),
                || json!({"case": case.to_json(), "leg": spec.leg.to_json(), "multiline": spec.multiline}),
            );
            continue;
        }
        // When multi-line mode is requested the searcher may deliver several
        // adjacent matching lines as one block; the partition into blocks is
        // not a result, the lines are.
        let out_log = if spec.multiline {
            crate::model::flatten(&out.log, case.cfg.term)
        } else {
            out.log.clone()
        };
        let out = Outcome { log: out_log, ..out };
        if let Some(i) = first_diff(&reference.log, &out.log) {
            // F8 shape: identical logs except the final byte count, after a
            // stop_on_nonmatch cut, in a reader-based leg.
            let only_finish = reference.log.len() == out.log.len()
                && i == reference.log.len() - 1
                && matches!(
                    (&reference.log[i], &out.log[i]),
                    (Event::Finish { binary: b1, .. }, Event::Finish { binary: b2, .. }) if b1 == b2
                );
            let reader_based = !matches!(spec.leg, Leg::Slice | Leg::File { mmap: true });
            let sig = if only_finish && cut && reader_based {
                "C02:byte_count-after-stop_on_nonmatch".to_string()
            } else {
                let kind = reference
                    .log
                    .get(i)
                    .or(out.log.get(i))
                    .map_or("none", |e| e.kind_name());
                format!("C02:{}:differs-at-{}", legname, kind)
            };
            rep.violation(
                &sig,
                format!(
                    "leg {} differs from search_slice at event {}: slice={} leg={} (pattern {:?}, cfg {}, input {})",
                    spec.leg.name(),
                    i,
                    reference.log.get(i).map_or("<none>".into(), |e| e.to_json().to_string()),
                    out.log.get(i).map_or("<none>".into(), |e| e.to_json().to_string()),
                    case.pattern,
                    case.cfg.to_json(),
                    esc_short(&case.input, 80),
                ),
                || {
                    json!({
                        "case": case.to_json(), "leg": spec.leg.to_json(),
                        "multiline": spec.multiline, "first_difference": i,
                        "slice_log": log_to_json(&reference.log),
                        "leg_log": log_to_json(&out.log),
                    })
                },
            );
        }
    }
    rep.sample(|| {
        json!({
            "pattern": case.pattern, "cfg": case.cfg.to_json(),
            "input": esc_short(&case.input, 100), "lines": nlines,
            "matched_lines": nm,
            "legs": all.iter().map(|s| format!("{}{}", s.leg.name(), if s.multiline {"+U"} else {""})).collect::<Vec<_>>(),
        })
    });
}

pub fn run(ctx: &Ctx) -> Report {
    let n = ctx.cases(8000, 300_000);
    let thorough = ctx.is_thorough();
    crate::par_cases(ctx, 2, n, |rng, _i, rep| {
        let case = ctxgen::gen_case(rng);
        let legs = gen_legs(rng, &case, thorough);
        check_case(&case, &legs, rep);
    })
}

pub fn replay(v: &Value) -> Report {
    let mut rep = Report::new();
    let case = CtxCase::from_json(&v["case"]);
    let spec = LegSpec {
        leg: Leg::from_json(&v["leg"]),
        multiline: v["multiline"].as_bool().unwrap_or(false),
    };
    check_case(&case, &[spec], &mut rep);
    rep
}
