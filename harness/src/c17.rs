//! C17 — transcoded input is searched as its UTF-8 equivalent.
//!
//! Reference: the input is transcoded in one shot by an independent decoder
//! (own UTF-16 decoder following the WHATWG algorithm; `encoding_rs` one-shot
//! decode for the legacy encodings), then searched with `search_slice` and no
//! transcoding. Every strategy over the encoded bytes must deliver the same
//! event log.

use serde_json::{json, Value};

use crate::{
    c02::CAPS,
    model::{flatten, Term},
    oracle::{self, PatFlags},
    report::{esc, esc_short, unesc, Report},
    rng::{fnv_parts, Rng},
    run::{run_leg, Bin, Leg, SearchCfg},
    sinklog::{log_to_json, Event, ReadOp},
    Ctx,
};

#[derive(Clone, Copy, Debug, PartialEq, Eq)]
pub enum Enc {
    Utf16Le,
    Utf16Be,
    Utf8,
    Latin1,
    ShiftJis,
    /// stateful 7-bit encoding: every byte of the encoded text is ASCII
    Iso2022Jp,
    EucKr,
}

impl Enc {
    pub fn label(self) -> &'static str {
        match self {
            Enc::Utf16Le => "utf-16le",
            Enc::Utf16Be => "utf-16be",
            Enc::Utf8 => "utf-8",
            Enc::Latin1 => "latin1",
            Enc::ShiftJis => "shift_jis",
            Enc::Iso2022Jp => "iso-2022-jp",
            Enc::EucKr => "euc-kr",
        }
    }
    pub fn from_label(s: &str) -> Enc {
        match s {
            "utf-16le" => Enc::Utf16Le,
            "utf-16be" => Enc::Utf16Be,
            "latin1" => Enc::Latin1,
            "shift_jis" => Enc::ShiftJis,
            "iso-2022-jp" => Enc::Iso2022Jp,
            "euc-kr" => Enc::EucKr,
            _ => Enc::Utf8,
        }
    }
    pub fn bom(self) -> &'static [u8] {
        match self {
            Enc::Utf16Le => b"\xff\xfe",
            Enc::Utf16Be => b"\xfe\xff",
            Enc::Utf8 => b"\xef\xbb\xbf",
            _ => b"",
        }
    }
}

/// WHATWG UTF-16 decoder, one shot.
pub fn decode_utf16(bytes: &[u8], le: bool) -> Vec<u8> {
    let mut out = String::new();
    let mut lead_surrogate: Option<u16> = None;
    let mut i = 0;
    let mut units: Vec<u16> = Vec::with_capacity(bytes.len() / 2);
    while i + 1 < bytes.len() {
        let u = if le {
            u16::from_le_bytes([bytes[i], bytes[i + 1]])
        } else {
            u16::from_be_bytes([bytes[i], bytes[i + 1]])
        };
        units.push(u);
        i += 2;
    }
    let odd = bytes.len() % 2 == 1;
    let mut k = 0;
    while k < units.len() {
        let u = units[k];
        if let Some(lead) = lead_surrogate.take() {
            if (0xDC00..=0xDFFF).contains(&u) {
                let c = 0x10000
                    + (((lead as u32) - 0xD800) << 10)
                    + ((u as u32) - 0xDC00);
                out.push(char::from_u32(c).unwrap());
                k += 1;
                continue;
            }
            // error; the current unit is processed again
            out.push('\u{FFFD}');
            continue;
        }
        if (0xD800..=0xDBFF).contains(&u) {
            lead_surrogate = Some(u);
        } else if (0xDC00..=0xDFFF).contains(&u) {
            out.push('\u{FFFD}');
        } else {
            out.push(char::from_u32(u as u32).unwrap());
        }
        k += 1;
    }
    if lead_surrogate.is_some() || odd {
        out.push('\u{FFFD}');
    }
    out.into_bytes()
}

/// The reference transcoding of `raw` as the searcher is documented to see
/// it: a BOM decides (and is removed); otherwise the label; otherwise
/// nothing happens.
pub fn reference_transcode(raw: &[u8], label: Option<Enc>, sniff: bool) -> Vec<u8> {
    if sniff {
        if raw.starts_with(b"\xef\xbb\xbf") {
            return raw[3..].to_vec();
        }
        if raw.starts_with(b"\xff\xfe") {
            return decode_utf16(&raw[2..], true);
        }
        if raw.starts_with(b"\xfe\xff") {
            return decode_utf16(&raw[2..], false);
        }
    }
    match label {
        None => raw.to_vec(),
        Some(Enc::Utf8) => {
            let (s, _) = encoding_rs::UTF_8.decode_without_bom_handling(raw);
            s.into_owned().into_bytes()
        }
        Some(Enc::Utf16Le) => decode_utf16(raw, true),
        Some(Enc::Utf16Be) => decode_utf16(raw, false),
        Some(Enc::Latin1) => {
            let (s, _) = encoding_rs::WINDOWS_1252.decode_without_bom_handling(raw);
            s.into_owned().into_bytes()
        }
        Some(Enc::ShiftJis) => {
            let (s, _) = encoding_rs::SHIFT_JIS.decode_without_bom_handling(raw);
            s.into_owned().into_bytes()
        }
        Some(Enc::Iso2022Jp) => {
            let (s, _) = encoding_rs::ISO_2022_JP.decode_without_bom_handling(raw);
            s.into_owned().into_bytes()
        }
        Some(Enc::EucKr) => {
            let (s, _) = encoding_rs::EUC_KR.decode_without_bom_handling(raw);
            s.into_owned().into_bytes()
        }
    }
}

#[derive(Clone, Debug)]
pub struct Case17 {
    pub pattern: String,
    pub cfg: SearchCfg,
    /// encoded bytes as they are on disk
    pub raw: Vec<u8>,
    pub label: Option<Enc>,
    pub sniff: bool,
    pub multiline: bool,
}

impl Case17 {
    pub fn to_json(&self) -> Value {
        json!({
            "pattern": self.pattern, "cfg": self.cfg.to_json(),
            "raw": esc(&self.raw), "label": self.label.map(|l| l.label()),
            "sniff": self.sniff, "multiline": self.multiline,
        })
    }
    pub fn from_json(v: &Value) -> Case17 {
        Case17 {
            pattern: v["pattern"].as_str().unwrap().to_string(),
            cfg: SearchCfg::from_json(&v["cfg"]),
            raw: unesc(v["raw"].as_str().unwrap()),
            label: v["label"].as_str().map(Enc::from_label),
            sniff: v["sniff"].as_bool().unwrap_or(true),
            multiline: v["multiline"].as_bool().unwrap_or(false),
        }
    }
}

const WORDS_ANY: &[&str] = &[
    "m", "x", "yz", " ", "é", "δ", "Δ", "😀", "日本", "語", "𝄞", "ß", "0", ".",
    "mm", "ü", "\u{FEFF}", "\u{2028}", "a",
];
const WORDS_LATIN1: &[&str] =
    &["m", "x", "yz", " ", "é", "ß", "0", ".", "ü", "a", "ÿ", "©", "€"];
const WORDS_SJIS: &[&str] =
    &["m", "x", "yz", " ", "日本", "語", "0", ".", "a", "ア", "ｱ", "、"];

pub const PATTERNS17: &[&str] =
    &["m", "^m", "é", "日", "[δΔ]", "\\p{Greek}", "m.*x", "\\x{FFFD}", "😀|語", "ß$", "(?i)DELTA|δ"];

fn gen_text(rng: &mut Rng, words: &[&str], nlines: usize, crlf: bool) -> String {
    let mut s = gen_text0(rng, words, nlines, crlf);
    // A text that itself starts with U+FEFF is kept only rarely (it hits a
    // known finding and would otherwise dominate the BOM cases).
    while s.starts_with('\u{FEFF}') && !rng.chance(1, 30) {
        s.remove(0);
    }
    s
}

fn gen_text0(rng: &mut Rng, words: &[&str], nlines: usize, crlf: bool) -> String {
    let mut s = String::new();
    for i in 0..nlines {
        let n = rng.below(6);
        for _ in 0..n {
            s.push_str(rng.pick(words));
        }
        if rng.chance(1, 12) && !cfg!(miri) {
            // a long line, to straddle decode buffers
            for _ in 0..rng.range(200, 3000) {
                s.push_str(rng.pick(words));
            }
        }
        if i + 1 == nlines && rng.chance(1, 4) {
            break;
        }
        if crlf {
            s.push_str("\r\n");
        } else {
            s.push('\n');
        }
    }
    s
}

fn encode_utf16(rng: &mut Rng, text: &str, le: bool, malformed: bool) -> Vec<u8> {
    let mut units: Vec<u16> = text.encode_utf16().collect();
    if malformed && !units.is_empty() {
        for _ in 0..rng.range(1, 3) {
            let i = rng.below(units.len() + 1);
            let u = if rng.bool() {
                0xD800 + rng.below(0x400) as u16
            } else {
                0xDC00 + rng.below(0x400) as u16
            };
            units.insert(i, u);
        }
    }
    let mut out = Vec::with_capacity(units.len() * 2 + 1);
    for u in units {
        if le {
            out.extend_from_slice(&u.to_le_bytes());
        } else {
            out.extend_from_slice(&u.to_be_bytes());
        }
    }
    if malformed && rng.chance(1, 3) {
        out.push(rng.pick(&[0x41u8, 0x00, 0xD8, 0x0A]));
    }
    out
}

pub fn gen_case(rng: &mut Rng) -> Case17 {
    let mut cfg = crate::ctxgen::gen_cfg(rng);
    let crlf = rng.chance(1, 5);
    cfg.term = if crlf { Term::Crlf } else { Term::Lf };
    cfg.stop_on_nonmatch = false;
    cfg.binary = Bin::None;
    let nlines = match rng.weighted(&[10, 5, 2]) {
        0 => rng.range(1, 10),
        1 => rng.range(11, 80),
        _ => rng.range(81, 1500),
    };
    let nlines = if cfg!(miri) { nlines.min(4) } else { nlines };
    let kind = rng.below(10);
    let malformed = rng.chance(1, 4);
    let (raw, label, sniff): (Vec<u8>, Option<Enc>, bool) = match kind {
        0 | 1 => {
            // UTF-16 with BOM, sniffed
            let le = rng.bool();
            let t = gen_text(rng, WORDS_ANY, nlines, crlf);
            let mut raw = if le { b"\xff\xfe".to_vec() } else { b"\xfe\xff".to_vec() };
            raw.extend(encode_utf16(rng, &t, le, malformed));
            (raw, None, true)
        }
        2 => {
            // UTF-8 with BOM (possibly with invalid UTF-8 inside: passthru)
            let t = gen_text(rng, WORDS_ANY, nlines, crlf);
            let mut raw = b"\xef\xbb\xbf".to_vec();
            raw.extend_from_slice(t.as_bytes());
            if malformed && raw.len() > 4 {
                let i = 3 + rng.below(raw.len() - 3);
                raw[i] = 0xff;
            }
            (raw, None, true)
        }
        3 | 4 => {
            // UTF-16 without BOM, explicit label
            let le = rng.bool();
            let t = gen_text(rng, WORDS_ANY, nlines, crlf);
            let mut raw = encode_utf16(rng, &t, le, malformed);
            // must not start with a BOM by accident
            if raw.starts_with(b"\xff\xfe") || raw.starts_with(b"\xfe\xff") {
                raw.insert(0, 0x20);
                raw.insert(0, 0x20);
            }
            (raw, Some(if le { Enc::Utf16Le } else { Enc::Utf16Be }), true)
        }
        5 => {
            let t = gen_text(rng, WORDS_LATIN1, nlines, crlf);
            let (b, _, _) = encoding_rs::WINDOWS_1252.encode(&t);
            let mut raw = b.into_owned();
            if malformed && !raw.is_empty() {
                let i = rng.below(raw.len());
                raw[i] = rng.pick(&[0x81u8, 0x8d, 0xff, 0x90]);
            }
            if raw.starts_with(b"\xff\xfe") || raw.starts_with(b"\xfe\xff") || raw.starts_with(b"\xef\xbb\xbf") {
                raw.insert(0, b' ');
            }
            (raw, Some(Enc::Latin1), true)
        }
        6 => {
            let t = gen_text(rng, WORDS_SJIS, nlines, crlf);
            let (b, _, _) = encoding_rs::SHIFT_JIS.encode(&t);
            let mut raw = b.into_owned();
            if malformed && !raw.is_empty() {
                let i = rng.below(raw.len());
                raw[i] = rng.pick(&[0x81u8, 0xfd, 0xff, 0xa0, 0x80]);
            }
            if raw.starts_with(b"\xff\xfe") || raw.starts_with(b"\xfe\xff") || raw.starts_with(b"\xef\xbb\xbf") {
                raw.insert(0, b' ');
            }
            // the same text under two other legacy labels: a stateful
            // 7-bit one (every encoded byte is ASCII) and a Korean one
            match rng.below(4) {
                0 => {
                    let (b, _, _) = encoding_rs::ISO_2022_JP.encode(&t);
                    let mut raw = b.into_owned();
                    if raw.is_empty() {
                        raw.push(b' ');
                    }
                    (raw, Some(Enc::Iso2022Jp), true)
                }
                1 => {
                    let t2 = t.replace('語', "한").replace('日', "글");
                    let (b, _, _) = encoding_rs::EUC_KR.encode(&t2);
                    let mut raw = b.into_owned();
                    if raw.starts_with(b"\xff\xfe") || raw.starts_with(b"\xfe\xff") || raw.starts_with(b"\xef\xbb\xbf") || raw.is_empty() {
                        raw.insert(0, b' ');
                    }
                    (raw, Some(Enc::EucKr), true)
                }
                _ => (raw, Some(Enc::ShiftJis), true),
            }
        }
        7 => {
            // BOM overrides a conflicting label
            let le = rng.bool();
            let t = gen_text(rng, WORDS_ANY, nlines, crlf);
            let mut raw = if le { b"\xff\xfe".to_vec() } else { b"\xfe\xff".to_vec() };
            raw.extend(encode_utf16(rng, &t, le, malformed));
            let label = rng.pick(&[Enc::Latin1, Enc::ShiftJis, Enc::Utf8, Enc::Utf16Be, Enc::Utf16Le]);
            if rng.chance(1, 3) {
                // a UTF-8 mark against a label that says otherwise
                let mut raw = b"\xef\xbb\xbf".to_vec();
                raw.extend_from_slice(t.as_bytes());
                let label = rng.pick(&[Enc::Latin1, Enc::ShiftJis, Enc::Utf16Be, Enc::Utf16Le]);
                (raw, Some(label), true)
            } else {
                (raw, Some(label), true)
            }
        }
        8 => {
            // sniffing disabled (--encoding none): raw bytes, BOM included
            let t = gen_text(rng, WORDS_ANY, nlines, crlf);
            let mut raw = b"\xef\xbb\xbf".to_vec();
            raw.extend_from_slice(t.as_bytes());
            (raw, None, false)
        }
        _ => {
            // explicit utf-8 label, with or without BOM; the label asks for
            // a transcoding like any other (malformed bytes become U+FFFD),
            // a mark means UTF-8 passed through
            let t = gen_text(rng, WORDS_ANY, nlines, crlf);
            let bom = rng.bool();
            let mut raw = if bom { b"\xef\xbb\xbf".to_vec() } else { vec![] };
            raw.extend_from_slice(t.as_bytes());
            if malformed && !bom && !raw.is_empty() {
                for _ in 0..rng.range(1, 3) {
                    let i = rng.below(raw.len());
                    if raw[i] != b'\n' && raw[i] != b'\r' {
                        raw[i] = rng.pick(&[0xffu8, 0x80, 0xc3, 0xf0]);
                    }
                }
                if raw.starts_with(b"\xff\xfe") || raw.starts_with(b"\xfe\xff") || raw.starts_with(b"\xef\xbb\xbf") {
                    raw.insert(0, b' ');
                }
            }
            (raw, Some(Enc::Utf8), true)
        }
    };
    Case17 {
        pattern: rng.pick(PATTERNS17).to_string(),
        cfg,
        raw,
        label,
        sniff,
        multiline: rng.chance(1, 5),
    }
}

pub fn gen_legs(rng: &mut Rng, case: &Case17) -> Vec<Leg> {
    let odd: Vec<ReadOp> = (0..12).map(|_| ReadOp::Chunk(rng.pick(&[1usize, 3, 5, 7, 2]))).collect();
    let mut legs = vec![
        Leg::Slice,
        Leg::File { mmap: true },
        Leg::File { mmap: false },
        Leg::Reader { cap: None, script: odd.clone(), tail: 3, cycle: true },
        Leg::Reader { cap: None, script: vec![], tail: rng.pick(&[8191usize, 8192, 8193, 4097, 16385]), cycle: false },
        Leg::Reader { cap: Some(rng.pick(CAPS)), script: vec![], tail: rng.range(1, 64), cycle: false },
    ];
    if case.raw.len() < 3000 {
        legs.push(Leg::Reader { cap: Some(rng.pick(CAPS)), script: vec![], tail: 1, cycle: false });
    }
    legs
}

pub fn check_case(case: &Case17, legs: &[Leg], rep: &mut Report) {
    rep.evaluations += 1;
    let mut flags = PatFlags::plain(case.cfg.term);
    flags.multiline = case.multiline;
    let matcher = match oracle::build_matcher(&[case.pattern.clone()], &flags) {
        Ok(m) => m,
        Err(_) => {
            rep.count("matcher_rejected");
            return;
        }
    };
    let transcoded = reference_transcode(&case.raw, case.label, case.sniff);
    crate::report::set_engine_probe(&[case.pattern.clone()], &flags, &[&transcoded]);
    // reference: plain search of the transcoded bytes
    let mut ref_cfg = case.cfg.clone();
    ref_cfg.encoding = None;
    ref_cfg.bom_sniffing = false;
    ref_cfg.multi_line = case.multiline;
    let reference = run_leg(&matcher, &ref_cfg, &Leg::Slice, &transcoded, None);
    if reference.result.is_err() {
        rep.count("reference_failed");
        return;
    }
    let ref_log = flatten(&reference.log, case.cfg.term);
    let nm = ref_log.iter().filter(|e| matches!(e, Event::Matched { .. })).count();
    if nm > 0 {
        rep.nontrivial(fnv_parts(&[
            case.pattern.as_bytes(),
            format!("{:?}{:?}{}", case.cfg, case.label, case.sniff).as_bytes(),
            &case.raw,
        ]));
    }
    let kind = match (case.label, case.sniff, case.raw.get(..2)) {
        (_, false, _) => "encoding_none",
        (None, true, _) => "bom_sniffed",
        (Some(_), true, Some(b)) if b == b"\xff\xfe" || b == b"\xfe\xff" => "bom_overrides_label",
        (Some(l), true, Some(b)) if b == b"\xef\xbb" && l != Enc::Utf8 => "utf8_bom_overrides_label",
        (Some(l), true, _) => match l {
            Enc::Utf16Le | Enc::Utf16Be => "label_utf16",
            Enc::Utf8 => "label_utf8",
            Enc::Latin1 => "label_latin1",
            Enc::ShiftJis => "label_shift_jis",
            Enc::Iso2022Jp => "label_iso_2022_jp",
            Enc::EucKr => "label_euc_kr",
        },
    };
    rep.count(kind);
    if transcoded.windows(3).any(|w| w == "\u{FFFD}".as_bytes()) {
        rep.count("cases_with_replacement_characters");
    }
    if case.raw.len() > 8192 {
        rep.count("inputs_larger_than_decode_buffer");
    }
    if case.raw.len() > 65536 {
        rep.count("inputs_larger_than_roll_buffer");
    }
    let mut cfg = case.cfg.clone();
    cfg.encoding = case.label.map(|l| l.label().to_string());
    cfg.bom_sniffing = case.sniff;
    cfg.multi_line = case.multiline;
    for leg in legs {
        let out = run_leg(&matcher, &cfg, leg, &case.raw, None);
        rep.count("searches_run");
        let lname = leg.short();
        if let Err(e) = &out.result {
            rep.violation(
                &format!("C17:{}:{}:search-error", kind, lname),
                format!("search failed: {}", e),
                || json!({"case": case.to_json(), "leg": leg.to_json()}),
            );
            continue;
        }
        let got = flatten(&out.log, case.cfg.term);
        // (only where a decoder is at work: with sniffing off and no label
        // the bytes are searched raw, and a mark that disappears then is a
        // violation of its own)
        if got != ref_log
            && transcoded.starts_with(b"\xef\xbb\xbf")
            && (case.sniff || case.label.is_some())
        {
            // Known finding: the decoded text itself begins with U+FEFF (a
            // second mark right after the byte-order mark, or after a
            // label-decoded start). The transcoding reader removes it too.
            let alt = run_leg(&matcher, &ref_cfg, &Leg::Slice, &transcoded[3..], None);
            if alt.result.is_ok() && flatten(&alt.log, case.cfg.term) == got {
                rep.violation(
                    "C17:leading-U+FEFF-of-decoded-text-also-removed",
                    format!(
                        "{}: the decoded text starts with U+FEFF (raw {}), which is dropped in addition to the byte-order mark",
                        kind,
                        esc_short(&case.raw, 16)
                    ),
                    || json!({"case": case.to_json(), "leg": leg.to_json()}),
                );
                continue;
            }
        }
        if got != ref_log
            && case.sniff
            && case.raw.starts_with(b"\xef\xbb\xbf")
            && matches!(case.label, Some(l) if l != Enc::Utf8)
        {
            // Known finding (encoding_rs_io): a UTF-8 mark is removed but
            // does not override the explicit label: the rest of the input is
            // still decoded with the label's decoder.
            let alt_text = reference_transcode(&case.raw[3..], case.label, false);
            let alt = run_leg(&matcher, &ref_cfg, &Leg::Slice, &alt_text, None);
            let alt_log = flatten(&alt.log, case.cfg.term);
            // (the label's decoding may itself end in a malformed tail, whose
            // replacement character is lost: the other encoding_rs_io finding)
            let lost_tail = |text: &[u8]| -> bool {
                // results equal those of the text with its final U+FFFD
                // removed or cut short
                text.ends_with("\u{FFFD}".as_bytes())
                    && (1..=3).any(|k| {
                        let o = run_leg(&matcher, &ref_cfg, &Leg::Slice, &text[..text.len() - k], None);
                        o.result.is_ok() && flatten(&o.log, case.cfg.term) == got
                    })
            };
            if alt.result.is_ok()
                && (alt_log == got
                    || (alt_text.ends_with("\u{FFFD}".as_bytes())
                        && truncated_trailing_replacement(&alt_log, &got))
                    || lost_tail(&alt_text))
            {
                rep.violation(
                    "C17:utf8-mark-removed-but-explicit-label-still-decodes",
                    format!(
                        "{}: input starts with EF BB BF, label {:?}: results are those of the label's decoding of the rest, not of the UTF-8 text",
                        kind,
                        case.label.map(|l| l.label())
                    ),
                    || json!({"case": case.to_json(), "leg": leg.to_json()}),
                );
                continue;
            }
        }
        if got != ref_log
            && transcoded.ends_with("\u{FFFD}".as_bytes())
            && (truncated_trailing_replacement(&ref_log, &got)
                || (1..=3).any(|k| {
                    // the results are those of the transcoding with its final
                    // U+FFFD removed (k = 3) or cut short (matters when the
                    // pattern can match U+FFFD itself)
                    let o = run_leg(
                        &matcher,
                        &ref_cfg,
                        &Leg::Slice,
                        &transcoded[..transcoded.len() - k],
                        None,
                    );
                    o.result.is_ok() && flatten(&o.log, case.cfg.term) == got
                }))
        {
            // Known finding (encoding_rs_io): the replacement character that
            // stands for a malformed tail of the input is lost (legacy
            // multi-byte encodings: a lead byte pending at end of input) or
            // cut short (read buffer with fewer than 4 free bytes at the end).
            rep.violation(
                "C17:malformed-tail-replacement-char-lost-or-truncated",
                format!(
                    "{}: leg {}: the U+FFFD that ends the transcoding is lost or cut short (raw tail {})",
                    kind,
                    leg.name(),
                    esc_short(&case.raw[case.raw.len().saturating_sub(8)..], 16)
                ),
                || json!({"case": case.to_json(), "leg": leg.to_json()}),
            );
            continue;
        }
        // Same third-party defect, other shape: with a read buffer that has
        // fewer than 4 free bytes at the end of input, encoding_rs_io hands
        // out only part of the LAST character of the transcoding, whatever
        // it is. Recognised only for scripted readers with a tiny roll
        // buffer, and only if the results are exactly those of the
        // transcoding cut inside its final character.
        if got != ref_log {
            if let Leg::Reader { cap: Some(c), .. } = leg {
                let last_len = std::str::from_utf8(&transcoded)
                    .ok()
                    .and_then(|t| t.chars().last())
                    .map_or(0, |ch| ch.len_utf8());
                if *c <= 64
                    && last_len >= 2
                    && (1..last_len).any(|k| {
                        let o = run_leg(
                            &matcher,
                            &ref_cfg,
                            &Leg::Slice,
                            &transcoded[..transcoded.len() - k],
                            None,
                        );
                        o.result.is_ok() && flatten(&o.log, case.cfg.term) == got
                    })
                {
                    rep.violation(
                        "C17:malformed-tail-replacement-char-lost-or-truncated",
                        format!(
                            "{}: leg {}: the last character of the transcoding is cut short (tiny read buffer)",
                            kind,
                            leg.name()
                        ),
                        || json!({"case": case.to_json(), "leg": leg.to_json()}),
                    );
                    continue;
                }
            }
        }
        if got != ref_log {
            let i = got
                .iter()
                .zip(ref_log.iter())
                .position(|(a, b)| a != b)
                .unwrap_or(got.len().min(ref_log.len()));
            let k = ref_log.get(i).or(got.get(i)).map_or("none", |e| e.kind_name());
            rep.violation(
                &format!("C17:{}:{}:differs-at-{}", kind, lname, k),
                format!(
                    "{} ({:?}, sniff={}): leg {} event {}: transcoded reference {} vs {}; raw {}",
                    kind,
                    case.label.map(|l| l.label()),
                    case.sniff,
                    leg.name(),
                    i,
                    ref_log.get(i).map_or("<none>".into(), |e| e.to_json().to_string()),
                    got.get(i).map_or("<none>".into(), |e| e.to_json().to_string()),
                    esc_short(&case.raw, 60)
                ),
                || {
                    json!({
                        "case": case.to_json(), "leg": leg.to_json(),
                        "transcoded": esc(&transcoded[..transcoded.len().min(4000)]),
                        "reference_log": log_to_json(&ref_log[..ref_log.len().min(60)]),
                        "leg_log": log_to_json(&got[..got.len().min(60)]),
                    })
                },
            );
        }
    }
    rep.sample(|| {
        json!({
            "kind": kind, "label": case.label.map(|l| l.label()),
            "pattern": case.pattern, "raw_len": case.raw.len(),
            "raw": esc_short(&case.raw, 60),
            "transcoded": esc_short(&transcoded, 60),
        })
    });
}

/// `got` equals `reference` except for the final U+FFFD of the transcoding
/// (which stands for a malformed tail of the input): the last delivered line
/// lacks its final 1-3 bytes and / or the byte count is lower by 1-3.
fn truncated_trailing_replacement(reference: &[Event], got: &[Event]) -> bool {
    if reference.len() != got.len() || reference.len() < 2 {
        return false;
    }
    let n = reference.len();
    let last = (0..n).rev().find(|&i| {
        matches!(reference[i], Event::Matched { .. } | Event::Context { .. })
    });
    let mut missing_line: Option<u64> = None;
    let mut missing_count: Option<u64> = None;
    for i in 0..n {
        if Some(i) == last && reference[i] != got[i] {
            let (rb, gb, same_rest) = match (&reference[i], &got[i]) {
                (
                    Event::Matched { bytes: rb, off: ro, line: rl },
                    Event::Matched { bytes: gb, off: go, line: gl },
                ) => (rb, gb, ro == go && rl == gl),
                (
                    Event::Context { bytes: rb, off: ro, line: rl, kind: rk },
                    Event::Context { bytes: gb, off: go, line: gl, kind: gk },
                ) => (rb, gb, ro == go && rl == gl && rk == gk),
                _ => return false,
            };
            if !same_rest
                || !rb.ends_with("\u{FFFD}".as_bytes())
                || !rb.starts_with(gb)
                || rb.len() <= gb.len()
                || rb.len() - gb.len() > 3
            {
                return false;
            }
            missing_line = Some((rb.len() - gb.len()) as u64);
        } else if let (
            Event::Finish { byte_count: rc, binary: rbin },
            Event::Finish { byte_count: gc, binary: gbin },
        ) = (&reference[i], &got[i])
        {
            if rbin != gbin || rc < gc || rc - gc > 3 {
                return false;
            }
            if rc != gc {
                missing_count = Some(rc - gc);
            }
        } else if reference[i] != got[i] {
            return false;
        }
    }
    match (missing_line, missing_count) {
        (Some(a), Some(b)) => a == b,
        (None, Some(_)) => true,
        _ => false,
    }
}

pub fn run(ctx: &Ctx) -> Report {
    let n = ctx.cases(4000, 150_000);
    crate::par_cases(ctx, 17, n, |rng, _i, rep| {
        let case = gen_case(rng);
        let legs = gen_legs(rng, &case);
        check_case(&case, &legs, rep);
    })
}

pub fn replay(v: &Value) -> Report {
    let mut rep = Report::new();
    let case = Case17::from_json(&v["case"]);
    let leg = Leg::from_json(&v["leg"]);
    check_case(&case, &[leg], &mut rep);
    rep
}
