//! C14 — binary data never reaches the output unless text mode is requested.
//!
//! Library level: the real `Standard` printer is attached to the searcher
//! and its output bytes are the observation, across strategies, read
//! fragmentations and roll buffer capacities. The recording sink is used in
//! addition for the `binary_data` / `finish.binary_byte_offset` coordinates.

use grep_printer::StandardBuilder;
use serde_json::{json, Value};
use termcolor::NoColor;

use crate::{
    c02::CAPS,
    ctxgen::{self, CtxCase},
    model::{split_lines, Term},
    oracle::Oracle,
    report::{esc, esc_short, Report},
    rng::{fnv_parts, Rng},
    run::{run_leg, search_leg, Bin, Leg, SearchCfg},
    sinklog::{Event, ReadOp},
    Ctx,
};

#[derive(Clone, Debug, PartialEq, Eq)]
pub struct Rec {
    pub is_match: bool,
    pub line: u64,
    pub off: u64,
    pub bytes: Vec<u8>,
}

#[derive(Clone, Debug, Default)]
pub struct Parsed {
    pub recs: Vec<Rec>,
    pub separators: usize,
    pub warning: bool,
    pub notice: bool,
    pub garbage: Vec<Vec<u8>>,
}

/// Parse `F:LN:OFF:content` / `F-LN-OFF-content` / `--` / notices.
pub fn parse(out: &[u8]) -> Parsed {
    let mut p = Parsed::default();
    for rec in out.split_inclusive(|&b| b == b'\n') {
        let body = rec.strip_suffix(b"\n").unwrap_or(rec);
        let body_nocr = body.strip_suffix(b"\r").unwrap_or(body);
        if body_nocr == b"--" {
            p.separators += 1;
            continue;
        }
        if body.starts_with(b"F: WARNING: stopped searching binary file") {
            p.warning = true;
            continue;
        }
        if body.starts_with(b"F: binary file matches") {
            p.notice = true;
            continue;
        }
        let parsed = (|| {
            let sep = *body.get(1)?;
            if body[0] != b'F' || (sep != b':' && sep != b'-') {
                return None;
            }
            let rest = &body[2..];
            let i = rest.iter().position(|&b| b == sep)?;
            let line: u64 = std::str::from_utf8(&rest[..i]).ok()?.parse().ok()?;
            let rest2 = &rest[i + 1..];
            let j = rest2.iter().position(|&b| b == sep)?;
            let off: u64 = std::str::from_utf8(&rest2[..j]).ok()?.parse().ok()?;
            Some(Rec {
                is_match: sep == b':',
                line,
                off,
                bytes: rest2[j + 1..].to_vec(),
            })
        })();
        match parsed {
            Some(mut r) => {
                r.bytes.push(b'\n');
                p.recs.push(r);
            }
            None => p.garbage.push(body.to_vec()),
        }
    }
    p
}

pub fn print_leg(
    case: &CtxCase,
    cfg: &SearchCfg,
    leg: &Leg,
) -> Result<Vec<u8>, String> {
    let m = case.matcher(false)?;
    let mut printer = StandardBuilder::new()
        .byte_offset(true)
        .build(NoColor::new(Vec::new()));
    let (res, _) = {
        let sink = printer.sink_with_path(&m, "F");
        search_leg(&m, cfg, leg, &case.input, sink)
    };
    res.map_err(|e| e.to_string())?;
    Ok(printer.into_inner().into_inner())
}

pub fn gen_case(rng: &mut Rng) -> (CtxCase, Vec<usize>) {
    let mut case = ctxgen::gen_case(rng);
    if case.cfg.term == Term::Nul {
        case.cfg.term = Term::Lf;
        case.pattern = case.pattern.replace("\\x00", "\\n");
        for b in case.input.iter_mut() {
            if *b == 0 {
                *b = b'\n';
            }
        }
    }
    case.cfg.stop_on_nonmatch = false;
    case.cfg.line_number = true;
    // sometimes a big input so that the 64 KiB sniff window and several
    // default-size buffers matter
    if rng.chance(1, 12) {
        let target = rng.range(66_000, 200_000);
        let unit = if case.input.is_empty() { b"mxyz\n0 .\n".to_vec() } else { case.input.clone() };
        while case.input.len() < target {
            case.input.extend_from_slice(&unit);
        }
    }
    if case.input.is_empty() {
        case.input = b"m\nx\n".to_vec();
    }
    let len = case.input.len();
    let lines = split_lines(&case.input, case.cfg.term);
    let mut positions = vec![];
    let n = rng.range(1, 3);
    for _ in 0..n {
        let pos = match rng.below(8) {
            0 => 0,
            1 => len - 1,
            2 | 3 => {
                // inside a matching line
                let ms: Vec<_> = lines.iter().filter(|l| case.input[l.start] == b'm').collect();
                if ms.is_empty() {
                    rng.below(len)
                } else {
                    let l = ms[rng.below(ms.len())];
                    l.start + 1 + rng.below((l.end - l.start).max(2) - 1)
                }
            }
            4 => {
                // first byte after a matching line
                let ms: Vec<_> = lines.iter().filter(|l| case.input[l.start] == b'm').collect();
                if ms.is_empty() {
                    rng.below(len)
                } else {
                    ms[rng.below(ms.len())].end.min(len - 1)
                }
            }
            5 if len > 65_537 => *[65_535usize, 65_536, 65_537].get(rng.below(3)).unwrap(),
            _ => rng.below(len),
        };
        let pos = pos.min(len - 1);
        case.input[pos] = 0;
        positions.push(pos);
    }
    positions.sort();
    positions.dedup();
    (case, positions)
}

pub fn gen_legs(rng: &mut Rng, case: &CtxCase) -> Vec<Leg> {
    let script: Vec<ReadOp> = (0..8).map(|_| ReadOp::Chunk(rng.range(1, 40))).collect();
    let mut legs = vec![
        Leg::Slice,
        Leg::Reader { cap: Some(rng.pick(CAPS)), script: vec![], tail: rng.range(1, 9), cycle: false },
        Leg::Reader { cap: Some(rng.pick(CAPS)), script, tail: 5, cycle: true },
        Leg::Reader { cap: None, script: vec![], tail: 1 << 20, cycle: false },
        Leg::File { mmap: true },
        Leg::File { mmap: false },
    ];
    if case.input.len() > 60_000 {
        // tiny buffers over large inputs are slow and add nothing here
        legs.remove(1);
    }
    legs
}

pub fn check_case(case: &CtxCase, nuls: &[usize], legs: &[Leg], rep: &mut Report) {
    {
        let conv: Vec<u8> = case.input.iter().map(|&b| if b == 0 { b'\n' } else { b }).collect();
        crate::report::set_engine_probe(&[case.pattern.clone()], &case.flags(false), &[&case.input, &conv]);
    }
    rep.evaluations += 1;
    let first_nul = match case.input.iter().position(|&b| b == 0) {
        Some(n) => n as u64,
        None => {
            rep.count("no_nul_after_all");
            return;
        }
    };
    let mut none_cfg = case.cfg.clone();
    none_cfg.binary = Bin::None;
    let reference = match print_leg(case, &none_cfg, &Leg::Slice) {
        Ok(o) => parse(&o),
        Err(_) => {
            rep.count("reference_failed");
            return;
        }
    };
    rep.add("reference_lines", reference.recs.len() as u64);
    // does a line of the NUL -> LF converted content match?
    let converted_has_match = {
        let conv: Vec<u8> = case.input.iter().map(|&b| if b == 0 { b'\n' } else { b }).collect();
        match Oracle::build(&[case.pattern.clone()], &case.flags(false)) {
            Ok(orc) => split_lines(&conv, case.cfg.term)
                .iter()
                .any(|l| orc.line_matches(&conv[l.start..l.content_end]) != case.cfg.invert),
            Err(_) => false,
        }
    };
    let raw_has_match = reference.recs.iter().any(|r| r.is_match);
    if raw_has_match {
        rep.nontrivial(fnv_parts(&[
            format!("{:?}", case.cfg).as_bytes(),
            &case.input,
        ]));
    }
    let where_nul = if first_nul == 0 {
        "nul_at_offset_0"
    } else if first_nul + 1 == case.input.len() as u64 {
        "nul_is_last_byte"
    } else if (65_535..=65_537).contains(&first_nul) {
        "nul_at_64k_boundary"
    } else if first_nul > 65_537 {
        "nul_beyond_first_64k"
    } else {
        "nul_elsewhere"
    };
    rep.count(where_nul);
    for mode in [Bin::Quit, Bin::Convert] {
        let mut cfg = case.cfg.clone();
        cfg.binary = mode;
        let mname = if mode == Bin::Quit { "quit" } else { "convert" };
        for leg in legs {
            let lname = leg.short();
            let out = match print_leg(case, &cfg, leg) {
                Ok(o) => o,
                Err(e) => {
                    rep.violation(
                        &format!("C14:{}:{}:search-error", mname, lname),
                        format!("search failed: {}", e),
                        || json!({"case": case.to_json(), "mode": mname, "leg": leg.to_json()}),
                    );
                    continue;
                }
            };
            rep.count("printer_runs");
            let replay = |out: &[u8]| {
                json!({
                    "case": case.to_json(), "mode": mname, "leg": leg.to_json(),
                    "first_nul": first_nul, "nuls": nuls,
                    "output": esc(&out[..out.len().min(4000)]),
                })
            };
            // (1) hard safety
            if let Some(i) = out.iter().position(|&b| b == 0) {
                rep.violation(
                    &format!("C14:{}:{}:nul-in-output", mname, lname),
                    format!("NUL byte at output offset {} (first NUL of input at {}; cfg {})", i, first_nul, cfg.to_json()),
                    || replay(&out),
                );
                continue;
            }
            let p = parse(&out);
            if !p.garbage.is_empty() {
                rep.violation(
                    &format!("C14:{}:{}:unparsable-output", mname, lname),
                    format!("unparsable record {:?}", esc_short(&p.garbage[0], 60)),
                    || replay(&out),
                );
                continue;
            }
            rep.add("lines_printed_in_binary_mode", p.recs.len() as u64);
            // (2) prefix of the text-mode results
            let is_prefix = p.recs.len() <= reference.recs.len()
                && p.recs.iter().zip(reference.recs.iter()).all(|(a, b)| a == b);
            if !is_prefix {
                rep.violation(
                    &format!("C14:{}:{}:not-a-prefix-of-text-mode", mname, lname),
                    format!(
                        "lines printed with binary detection are not a prefix of the --text results (printed {}, text mode {}; first NUL at {})",
                        p.recs.len(), reference.recs.len(), first_nul
                    ),
                    || replay(&out),
                );
                continue;
            }
            let reader_based = !matches!(leg, Leg::Slice | Leg::File { mmap: true });
            if reader_based {
                if let Some(r) = p.recs.iter().find(|r| r.off + r.bytes.len() as u64 > first_nul) {
                    rep.violation(
                        &format!("C14:{}:{}:line-at-or-after-first-nul-printed", mname, lname),
                        format!("line {} at offset {} printed although the first NUL is at {}", r.line, r.off, first_nul),
                        || replay(&out),
                    );
                }
            }
            let cut = p.recs.len() < reference.recs.len();
            if cut {
                rep.count("searches_cut_by_binary_detection");
            }
            match mode {
                Bin::Quit => {
                    if p.notice {
                        rep.violation(
                            &format!("C14:quit:{}:wrong-notice", lname),
                            "quit mode printed the 'binary file matches' notice".to_string(),
                            || replay(&out),
                        );
                    }
                    if cut && p.recs.iter().any(|r| r.is_match) && !p.warning {
                        rep.violation(
                            &format!("C14:quit:{}:cut-without-warning", lname),
                            format!("search cut off after printing {} lines but no warning was printed", p.recs.len()),
                            || replay(&out),
                        );
                    }
                }
                _ => {
                    if p.warning {
                        rep.violation(
                            &format!("C14:convert:{}:wrong-notice", lname),
                            "convert mode printed the quit-mode warning".to_string(),
                            || replay(&out),
                        );
                    }
                    if cut && !p.notice && (p.recs.iter().any(|r| r.is_match) || (raw_has_match && converted_has_match)) {
                        rep.violation(
                            &format!("C14:convert:{}:matches-dropped-without-notice", lname),
                            format!(
                                "binary file has matching lines (text mode prints {}), {} printed, and no 'binary file matches' notice",
                                reference.recs.len(), p.recs.len()
                            ),
                            || replay(&out),
                        );
                    }
                }
            }
            // coordinates of the detection, from the recording sink
            if let Ok(m) = case.matcher(false) {
                let o = run_leg(&m, &cfg, leg, &case.input, None);
                let bin_events: Vec<u64> = o
                    .log
                    .iter()
                    .filter_map(|e| if let Event::Binary { off } = e { Some(*off) } else { None })
                    .collect();
                let fin = o.log.iter().find_map(|e| {
                    if let Event::Finish { binary, .. } = e { Some(*binary) } else { None }
                });
                rep.add("binary_data_events", bin_events.len() as u64);
                let mut bad: Option<String> = None;
                if bin_events.len() > 1 {
                    bad = Some(format!("{} binary_data events", bin_events.len()));
                }
                for &off in &bin_events {
                    if case.input.get(off as usize) != Some(&0) {
                        bad = Some(format!("binary_data offset {} is not a NUL", off));
                    }
                }
                if reader_based {
                    if bin_events != vec![first_nul] {
                        bad = Some(format!("reader strategy reported binary offsets {:?}, first NUL is at {}", bin_events, first_nul));
                    }
                    if fin != Some(Some(first_nul)) {
                        bad = Some(format!("finish.binary_byte_offset = {:?}, first NUL is at {}", fin, first_nul));
                    }
                } else if first_nul < 65_536 && bin_events != vec![first_nul] {
                    bad = Some(format!("slice strategy reported binary offsets {:?}, first NUL {} is inside the sniffed prefix", bin_events, first_nul));
                }
                // no delivered line may contain a NUL unless binary data was
                // signalled before it (convert mode on slices)
                let mut signalled = false;
                for e in &o.log {
                    match e {
                        Event::Binary { .. } => signalled = true,
                        Event::Matched { bytes, .. } | Event::Context { bytes, .. } => {
                            if bytes.contains(&0) && !signalled {
                                bad = Some("line with NUL delivered before binary_data was signalled".into());
                            }
                            if bytes.contains(&0) && mode == Bin::Quit {
                                bad = Some("line with NUL delivered in quit mode".into());
                            }
                        }
                        _ => {}
                    }
                }
                if let Some(msg) = bad {
                    rep.violation(
                        &format!("C14:{}:{}:binary-coordinates", mname, lname),
                        msg,
                        || json!({"case": case.to_json(), "mode": mname, "leg": leg.to_json(),
                                  "first_nul": first_nul, "log": crate::sinklog::log_to_json(&o.log)}),
                    );
                }
            }
        }
    }
    rep.sample(|| {
        json!({
            "pattern": case.pattern, "cfg": case.cfg.to_json(),
            "input_len": case.input.len(), "nul_positions": nuls,
            "input": esc_short(&case.input, 80),
            "text_mode_lines": reference.recs.len(),
        })
    });
}

pub fn run(ctx: &Ctx) -> Report {
    let n = ctx.cases(5000, 150_000);
    crate::par_cases(ctx, 14, n, |rng, _i, rep| {
        let (case, nuls) = gen_case(rng);
        let legs = gen_legs(rng, &case);
        check_case(&case, &nuls, &legs, rep);
    })
}

pub fn replay(v: &Value) -> Report {
    let mut rep = Report::new();
    let case = CtxCase::from_json(&v["case"]);
    let leg = Leg::from_json(&v["leg"]);
    check_case(&case, &[], &[leg], &mut rep);
    rep
}
