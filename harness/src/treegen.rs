//! Directory tree generation and materialisation for the walker properties.

use std::{
    fs,
    os::unix::fs::symlink,
    path::{Path, PathBuf},
};

use serde_json::{json, Value};

use crate::rng::Rng;

#[derive(Clone, Debug, PartialEq, Eq)]
pub enum Kind {
    Dir,
    File(usize),
    /// regular file with the given text (ignore files)
    Text(String),
    /// symlink with the given (relative or absolute) target text
    Link(String),
}

#[derive(Clone, Debug)]
pub struct Node {
    /// path relative to the tree's base directory
    pub path: String,
    pub kind: Kind,
}

#[derive(Clone, Debug, Default)]
pub struct Tree {
    pub nodes: Vec<Node>,
}

impl Tree {
    pub fn to_json(&self) -> Value {
        Value::Array(
            self.nodes
                .iter()
                .map(|n| match &n.kind {
                    Kind::Dir => json!({"p": n.path, "k": "dir"}),
                    Kind::File(s) => json!({"p": n.path, "k": "file", "size": s}),
                    Kind::Text(c) => json!({"p": n.path, "k": "text", "content": c}),
                    Kind::Link(t) => json!({"p": n.path, "k": "link", "to": t}),
                })
                .collect(),
        )
    }

    pub fn from_json(v: &Value) -> Tree {
        let mut t = Tree::default();
        for n in v.as_array().map(|a| a.as_slice()).unwrap_or(&[]) {
            let path = n["p"].as_str().unwrap_or("").to_string();
            let kind = match n["k"].as_str().unwrap_or("file") {
                "dir" => Kind::Dir,
                "link" => Kind::Link(n["to"].as_str().unwrap_or("").to_string()),
                "text" => Kind::Text(n["content"].as_str().unwrap_or("").to_string()),
                _ => Kind::File(n["size"].as_u64().unwrap_or(0) as usize),
            };
            t.nodes.push(Node { path, kind });
        }
        t
    }

    pub fn dirs(&self) -> usize {
        self.nodes.iter().filter(|n| n.kind == Kind::Dir).count()
    }

    /// Create the tree under `base` (which must not exist or be empty).
    pub fn materialise(&self, base: &Path) -> std::io::Result<()> {
        fs::create_dir_all(base)?;
        for n in &self.nodes {
            let p = base.join(&n.path);
            match &n.kind {
                Kind::Dir => fs::create_dir_all(&p)?,
                Kind::File(size) => {
                    if let Some(parent) = p.parent() {
                        fs::create_dir_all(parent)?;
                    }
                    fs::write(&p, vec![b'x'; *size])?;
                }
                Kind::Text(content) => {
                    if let Some(parent) = p.parent() {
                        fs::create_dir_all(parent)?;
                    }
                    fs::write(&p, content.as_bytes())?;
                }
                Kind::Link(to) => {
                    if let Some(parent) = p.parent() {
                        fs::create_dir_all(parent)?;
                    }
                    symlink(to, &p)?;
                }
            }
        }
        Ok(())
    }
}

pub const NAMES: &[&str] = &[
    "a", "b", "c", "d1", "e.txt", ".h", "f.rs", "skipme.txt", "big", "x-y",
    "skipdir", ".hd", "g", "h.md", "z",
];

pub struct TreeCfg {
    pub max_depth: usize,
    pub max_fanout: usize,
    pub links: bool,
    pub max_nodes: usize,
}

fn gen_dir(
    rng: &mut Rng,
    cfg: &TreeCfg,
    prefix: &str,
    depth: usize,
    t: &mut Tree,
    dirs: &mut Vec<String>,
    files: &mut Vec<String>,
) {
    if t.nodes.len() >= cfg.max_nodes {
        return;
    }
    let n = rng.below(cfg.max_fanout + 1);
    let mut names: Vec<&str> = NAMES.to_vec();
    rng.shuffle(&mut names);
    for name in names.into_iter().take(n) {
        if t.nodes.len() >= cfg.max_nodes {
            return;
        }
        let path = if prefix.is_empty() { name.to_string() } else { format!("{}/{}", prefix, name) };
        let r = rng.below(10);
        let is_dir_name = !name.contains('.') || name.starts_with('.');
        if r < 4 && depth < cfg.max_depth && is_dir_name {
            t.nodes.push(Node { path: path.clone(), kind: Kind::Dir });
            dirs.push(path.clone());
            gen_dir(rng, cfg, &path, depth + 1, t, dirs, files);
        } else if r < 8 || !cfg.links {
            let size = match rng.below(6) {
                0 => 0,
                1 => rng.range(1, 9),
                2 => 10,
                3 => 11,
                4 => rng.range(12, 200),
                _ => rng.range(1000, 5000),
            };
            t.nodes.push(Node { path: path.clone(), kind: Kind::File(size) });
            files.push(path);
        } else {
            // symlink: to a file, a directory, an ancestor, a sibling link,
            // or nowhere
            let ups = "../".repeat(depth);
            let target = match rng.below(6) {
                0 if !files.is_empty() => format!("{}{}", ups, rng.pick_ref(files)),
                1 if !dirs.is_empty() => format!("{}{}", ups, rng.pick_ref(dirs)),
                2 => "..".to_string(),
                3 if depth > 0 => "../..".to_string(),
                4 => format!("{}", name), // itself: ELOOP
                5 => ".".to_string(),
                _ => "nowhere".to_string(),
            };
            t.nodes.push(Node { path, kind: Kind::Link(target) });
        }
    }
}

pub fn gen_tree(rng: &mut Rng, cfg: &TreeCfg) -> Tree {
    let mut t = Tree::default();
    let mut dirs = vec![];
    let mut files = vec![];
    gen_dir(rng, cfg, "", 0, &mut t, &mut dirs, &mut files);
    match rng.below(8) {
        0 => {
            // a deep chain
            let mut p = String::from("chain");
            t.nodes.push(Node { path: p.clone(), kind: Kind::Dir });
            for i in 0..rng.range(6, 12) {
                p = format!("{}/c{}", p, i);
                t.nodes.push(Node { path: p.clone(), kind: Kind::Dir });
            }
            t.nodes.push(Node { path: format!("{}/leaf.txt", p), kind: Kind::File(3) });
        }
        1 => {
            // a wide directory
            t.nodes.push(Node { path: "wide".into(), kind: Kind::Dir });
            for i in 0..rng.range(20, 200) {
                let k = if i % 7 == 0 { Kind::Dir } else { Kind::File(i % 30) };
                t.nodes.push(Node { path: format!("wide/w{}", i), kind: k });
            }
        }
        2 => {
            // an empty directory
            t.nodes.push(Node { path: "empty".into(), kind: Kind::Dir });
        }
        _ => {}
    }
    t
}

/// A fresh private directory. The tree itself lives three levels below it
/// (`<private>/p1/p2/t`), so that symlinks pointing a few levels above the
/// tree root stay inside the private directory. Returns (private, tree base).
pub fn fresh_dir(tag: &str, n: u64) -> (PathBuf, PathBuf) {
    let d = crate::run::scratch_dir().join(format!("{}-{}", tag, n));
    let _ = fs::remove_dir_all(&d);
    let base = d.join("p1").join("p2").join("t");
    (d, base)
}
