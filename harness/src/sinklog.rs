//! Recorders at the client boundary of the searcher: a `Sink` that appends
//! every callback to an event log before returning (and can be scripted to
//! refuse or fail at a chosen event), and a `Read` that follows a scripted
//! history of read sizes, interruptions and failures.

use std::io;

use grep_searcher::{
    ConfigError, Searcher, Sink, SinkContext, SinkContextKind, SinkError,
    SinkFinish, SinkMatch,
};
use serde_json::{json, Value};

use crate::report::esc;

#[derive(Clone, Debug, PartialEq, Eq)]
pub enum Event {
    Begin,
    Matched { bytes: Vec<u8>, off: u64, line: Option<u64> },
    /// kind: 0 = before, 1 = after, 2 = other
    Context { kind: u8, bytes: Vec<u8>, off: u64, line: Option<u64> },
    Break,
    Binary { off: u64 },
    Finish { byte_count: u64, binary: Option<u64> },
}

impl Event {
    pub fn to_json(&self) -> Value {
        match self {
            Event::Begin => json!("begin"),
            Event::Matched { bytes, off, line } => {
                json!({"M": esc(bytes), "off": off, "line": line})
            }
            Event::Context { kind, bytes, off, line } => {
                let k = ["before", "after", "other"][*kind as usize];
                json!({"C": esc(bytes), "kind": k, "off": off, "line": line})
            }
            Event::Break => json!("break"),
            Event::Binary { off } => json!({"binary": off}),
            Event::Finish { byte_count, binary } => {
                json!({"finish": byte_count, "binary": binary})
            }
        }
    }

    pub fn kind_name(&self) -> &'static str {
        match self {
            Event::Begin => "begin",
            Event::Matched { .. } => "matched",
            Event::Context { .. } => "context",
            Event::Break => "break",
            Event::Binary { .. } => "binary",
            Event::Finish { .. } => "finish",
        }
    }
}

pub fn log_to_json(log: &[Event]) -> Value {
    Value::Array(log.iter().map(|e| e.to_json()).collect())
}

#[derive(Clone, Debug, PartialEq, Eq)]
pub enum LogError {
    /// The error injected by the scripted sink.
    Injected,
    Io(io::ErrorKind, String),
    Message(String),
    Config(String),
    /// the search panicked (message of the panic)
    Panicked(String),
}

impl std::fmt::Display for LogError {
    fn fmt(&self, f: &mut std::fmt::Formatter<'_>) -> std::fmt::Result {
        write!(f, "{:?}", self)
    }
}

impl SinkError for LogError {
    fn error_message<T: std::fmt::Display>(message: T) -> LogError {
        LogError::Message(message.to_string())
    }
    fn error_io(err: io::Error) -> LogError {
        LogError::Io(err.kind(), err.to_string())
    }
    fn error_config(err: ConfigError) -> LogError {
        LogError::Config(err.to_string())
    }
}

#[derive(Clone, Copy, Debug, PartialEq, Eq)]
pub enum Stop {
    /// Return `Ok(false)` (for `finish`, which cannot refuse: no effect).
    False,
    /// Return `Err(LogError::Injected)`.
    Err,
}

/// The recording sink. Every callback is appended to `log` *before* the
/// callback returns; when the index of the appended event equals `stop_at`
/// the scripted answer is returned instead of `Ok(true)`.
#[derive(Debug, Default)]
pub struct LogSink {
    pub log: Vec<Event>,
    pub stop_at: Option<(usize, Stop)>,
    /// Number of callbacks received after the scripted stop was returned.
    pub calls_after_stop: usize,
    stopped: bool,
}

impl LogSink {
    pub fn new() -> LogSink {
        LogSink::default()
    }

    pub fn stopping(at: usize, how: Stop) -> LogSink {
        LogSink { stop_at: Some((at, how)), ..LogSink::default() }
    }

    fn push(&mut self, ev: Event) -> Result<bool, LogError> {
        if self.stopped {
            self.calls_after_stop += 1;
        }
        let idx = self.log.len();
        self.log.push(ev);
        match self.stop_at {
            Some((at, how)) if at == idx => {
                self.stopped = true;
                match how {
                    Stop::False => Ok(false),
                    Stop::Err => Err(LogError::Injected),
                }
            }
            _ => Ok(true),
        }
    }
}

impl Sink for LogSink {
    type Error = LogError;

    fn matched(
        &mut self,
        _searcher: &Searcher,
        mat: &SinkMatch<'_>,
    ) -> Result<bool, LogError> {
        self.push(Event::Matched {
            bytes: mat.bytes().to_vec(),
            off: mat.absolute_byte_offset(),
            line: mat.line_number(),
        })
    }

    fn context(
        &mut self,
        _searcher: &Searcher,
        ctx: &SinkContext<'_>,
    ) -> Result<bool, LogError> {
        let kind = match ctx.kind() {
            SinkContextKind::Before => 0,
            SinkContextKind::After => 1,
            SinkContextKind::Other => 2,
        };
        self.push(Event::Context {
            kind,
            bytes: ctx.bytes().to_vec(),
            off: ctx.absolute_byte_offset(),
            line: ctx.line_number(),
        })
    }

    fn context_break(
        &mut self,
        _searcher: &Searcher,
    ) -> Result<bool, LogError> {
        self.push(Event::Break)
    }

    fn binary_data(
        &mut self,
        _searcher: &Searcher,
        binary_byte_offset: u64,
    ) -> Result<bool, LogError> {
        self.push(Event::Binary { off: binary_byte_offset })
    }

    fn begin(&mut self, _searcher: &Searcher) -> Result<bool, LogError> {
        self.push(Event::Begin)
    }

    fn finish(
        &mut self,
        _searcher: &Searcher,
        fin: &SinkFinish,
    ) -> Result<(), LogError> {
        self.push(Event::Finish {
            byte_count: fin.byte_count(),
            binary: fin.binary_byte_offset(),
        })
        .map(|_| ())
    }
}

#[derive(Clone, Copy, Debug, PartialEq, Eq)]
pub enum ReadOp {
    /// Return at most this many bytes (at least 1 unless at EOF).
    Chunk(usize),
    /// Return `ErrorKind::Interrupted` without consuming anything.
    Interrupted,
    /// Return a hard error (`ErrorKind::Other`, message "injected").
    Fail,
}

/// A reader over a byte slice that follows a scripted history.
#[derive(Debug)]
pub struct ScriptReader<'a> {
    data: &'a [u8],
    pos: usize,
    script: Vec<ReadOp>,
    /// Chunk size used once the script is exhausted; the script is cycled
    /// instead if `cycle` is set.
    tail: usize,
    cycle: bool,
    idx: usize,
    pub calls: usize,
    pub max_request: usize,
    pub min_request: usize,
}

impl<'a> ScriptReader<'a> {
    pub fn new(
        data: &'a [u8],
        script: Vec<ReadOp>,
        tail: usize,
        cycle: bool,
    ) -> ScriptReader<'a> {
        ScriptReader {
            data,
            pos: 0,
            script,
            tail: tail.max(1),
            cycle,
            idx: 0,
            calls: 0,
            max_request: 0,
            min_request: usize::MAX,
        }
    }

    pub fn chunks(data: &'a [u8], n: usize) -> ScriptReader<'a> {
        ScriptReader::new(data, vec![], n, false)
    }
}

impl<'a> io::Read for ScriptReader<'a> {
    fn read(&mut self, buf: &mut [u8]) -> io::Result<usize> {
        self.calls += 1;
        self.max_request = self.max_request.max(buf.len());
        self.min_request = self.min_request.min(buf.len());
        let op = if self.script.is_empty() {
            ReadOp::Chunk(self.tail)
        } else if self.idx < self.script.len() {
            let op = self.script[self.idx];
            self.idx += 1;
            op
        } else if self.cycle {
            self.idx = 1;
            self.script[0]
        } else {
            ReadOp::Chunk(self.tail)
        };
        match op {
            ReadOp::Interrupted => Err(io::Error::new(
                io::ErrorKind::Interrupted,
                "injected interrupt",
            )),
            ReadOp::Fail => {
                Err(io::Error::new(io::ErrorKind::Other, "injected"))
            }
            ReadOp::Chunk(n) => {
                let n = n
                    .max(1)
                    .min(buf.len())
                    .min(self.data.len() - self.pos);
                buf[..n].copy_from_slice(&self.data[self.pos..self.pos + n]);
                self.pos += n;
                Ok(n)
            }
        }
    }
}
