//! Random pattern generator (weighted random AST over a small alphabet),
//! shapes that steer the inner-literal extractor, and the curated corpus of
//! patterns that appear in the repository's own tests.

use crate::rng::Rng;

pub const LITS: &[&str] = &[
    "a", "b", "c", "A", "B", "é", "0", "7", "_", "-", " ", "\\t", "\\.", "ab",
    "abc", "foo", "Bar", "xyz", "ba", "aa", "Ab", "δ", "Δ", "\\x41", "\\*",
    "z", "fo", "oo",
];

pub const CLASSES: &[&str] = &[
    "[ab]", "[^a]", "[a-c]", "[A-Z]", "\\s", "\\w", "\\d", "\\W", "\\S",
    "\\D", "[[:alpha:]]", "\\pL", "[^\\s]", "[a-cA-C0-9_]", "\\p{Greek}",
    "[é-ë]", "[^\\w]", "[^ab]", "[a-z&&[^b]]", "[\\w-]", "[ \\t]", "[0-9a-f]",
    "\\p{Lu}", "[^\\x00-\\x7f]", "(?-u:[\\x80-\\xff])", "(?-u:\\W)", "[b-b]",
    // small byte classes with members >= 0x80 (Latin-1 text searched as bytes)
    "(?-u:[\\xE9\\xC9])", "(?-u:[a\\xFF])", "(?-u:[\\x80\\xBF\\xC3])",
];

pub const LOOKS: &[&str] = &[
    "^", "$", "\\b", "\\B", "\\b{start}", "\\b{end}", "\\b{start-half}",
    "\\b{end-half}", "(?-u:\\b)", "(?-u:\\B)",
];

pub const REPS: &[&str] = &[
    "*", "+", "?", "{2}", "{1,3}", "{0,2}", "*?", "+?", "??", "{2,}", "{3}",
    "{0}", "{1}", "{0,1}", "{10}", "{11}", "{12}",
];

/// Shapes that exercise `literal.rs`: inner required literals surrounded by
/// classes, alternations of literals inside concatenations, etc. `L` is
/// replaced by a random literal, `C` by a random class.
pub const SHAPES: &[&str] = &[
    "\\w+L\\d",
    "[A-Z]L[a-z]",
    "(L|L)\\s+L",
    "\\s+(L|[A-Z]L[a-z]|L)\\s+",
    "CLC",
    "C+LC*",
    "L.*L",
    "(?:L|L|L)C",
    "C(?:L)+C",
    "L?LC",
    "(L)+",
    "C{2}L{2}",
    "L(?:C|L)L",
    "(?i:L)C",
    "C(?i:L)",
    "^CL",
    "LC$",
    "\\bL\\b",
    "\\b(L|L)C",
    "LC*?L",
    "(L|C)L",
    "L|CL",
    "(?:CL|LC)",
    "L[a-z]{0,3}L",
    "(?:L){3}",
    "L*L",
    "C?L+",
    "(LC|L)+L",
    // one atom repeated around a gap ('S' is drawn once per pattern): the
    // prefix, inner and suffix literals of the pattern overlap each other
    "SS.*S",
    "SS.*?S",
    "(?-u)SS.*S",
    "(?i-u)SS.*S",
    "SSC*S",
    "(?-u:SS[^x]*S)",
    "S.*SS",
];

fn gen_atom(rng: &mut Rng) -> String {
    match rng.weighted(&[10, 6, 2]) {
        0 => rng.pick(LITS).to_string(),
        1 => rng.pick(CLASSES).to_string(),
        _ => ".".to_string(),
    }
}

/// Generate a pattern string of roughly the given size budget.
pub fn gen(rng: &mut Rng, budget: usize) -> String {
    if budget <= 1 {
        return gen_atom(rng);
    }
    match rng.weighted(&[6, 10, 5, 5, 4, 3, 1]) {
        0 => gen_atom(rng),
        1 => {
            // concatenation
            let n = rng.range(2, 4);
            let mut s = String::new();
            for _ in 0..n {
                let part = gen(rng, budget / n);
                // alternations need grouping inside a concatenation
                if part.contains('|') && !part.starts_with('(') {
                    s.push_str("(?:");
                    s.push_str(&part);
                    s.push(')');
                } else {
                    s.push_str(&part);
                }
            }
            s
        }
        2 => {
            // alternation
            let n = rng.range(2, 3);
            let parts: Vec<String> =
                (0..n).map(|_| gen(rng, budget / n)).collect();
            parts.join("|")
        }
        3 => {
            // repetition
            let sub = gen(rng, budget - 1);
            let rep = rng.pick(REPS);
            format!("(?:{}){}", sub, rep)
        }
        4 => {
            // group
            let sub = gen(rng, budget - 1);
            match rng.below(4) {
                0 => format!("({})", sub),
                1 => format!("(?:{})", sub),
                2 => format!("(?P<n{}>{})", rng.below(1000), sub),
                _ => format!("(?i:{})", sub),
            }
        }
        5 => {
            // look-around next to something
            let look = rng.pick(LOOKS);
            let sub = gen(rng, budget - 1);
            let sub = if sub.contains('|') {
                format!("(?:{})", sub)
            } else {
                sub
            };
            if rng.bool() {
                format!("{}{}", look, sub)
            } else {
                format!("{}{}", sub, look)
            }
        }
        _ => rng.pick(LOOKS).to_string(),
    }
}

pub fn gen_shape(rng: &mut Rng) -> String {
    let shape = rng.pick(SHAPES);
    let same = rng.pick(&["a", "b", "o", "[ab]", "[Aa]", "[a-c]", "aa", "fo"]);
    let mut s = String::new();
    for ch in shape.chars() {
        match ch {
            'S' => s.push_str(same),
            'L' => {
                // literals of varying length, sometimes long
                let n = match rng.weighted(&[6, 3, 1]) {
                    0 => 1,
                    1 => rng.range(2, 4),
                    _ => rng.range(5, 30),
                };
                for _ in 0..n {
                    s.push_str(rng.pick(LITS));
                }
            }
            'C' => s.push_str(rng.pick(CLASSES)),
            c => s.push(c),
        }
    }
    s
}

/// Long alternations near the extractor's `limit_total` (64), classes near
/// `limit_class` (10), repeats near `limit_repeat` (10), long literals near
/// `limit_literal_len` (100).
pub fn gen_limit(rng: &mut Rng) -> String {
    // the same limits with *literals* on both sides, so that the extractor
    // concatenates across the limited piece
    if rng.chance(1, 2) {
        let l1 = rng.pick(LITS);
        let l2 = rng.pick(LITS);
        let mid = rng.pick(&["=", "ab", "a", "-", "foo", "[ab]", "(?:a|b)"]);
        return match rng.below(5) {
            0 => format!("{}(?:{}){{{}}}{}", l1, mid, rng.range(8, 14), l2),
            1 => format!("\\b{}(?:{}){{{}}}{}\\b", l1, mid, rng.range(9, 13), l2),
            2 => {
                let n = rng.range(8, 12);
                let chars: String = "abcdefghijklmnop".chars().take(n).collect();
                format!("{}[{}]{}", l1, chars, l2)
            }
            3 => {
                let n = rng.range(60, 70);
                let alts: Vec<String> =
                    (0..n).map(|i| format!("{}{}", rng.pick(LITS), i)).collect();
                format!("{}(?:{}){}", l1, alts.join("|"), l2)
            }
            _ => {
                let n = rng.range(95, 105);
                let lit: String =
                    (0..n).map(|i| (b'a' + (i % 26) as u8) as char).collect();
                format!("{}{}{}", l1, lit, l2)
            }
        };
    }
    match rng.below(5) {
        0 => {
            let n = rng.range(60, 70);
            let alts: Vec<String> = (0..n)
                .map(|i| format!("{}{}", rng.pick(LITS), i))
                .collect();
            format!("\\w(?:{})\\d", alts.join("|"))
        }
        1 => {
            let n = rng.range(8, 12);
            let chars: String =
                "abcdefghijklmnop".chars().take(n).collect();
            format!("x[{}]y\\s", chars)
        }
        2 => {
            let n = rng.range(8, 12);
            format!("\\d(?:ab){{{}}}\\s", n)
        }
        3 => {
            let n = rng.range(95, 105);
            let lit: String = (0..n)
                .map(|i| (b'a' + (i % 26) as u8) as char)
                .collect();
            format!("\\s{}\\w", lit)
        }
        _ => {
            // "poisonous" one byte literals
            let c = rng.pick(&["e", " ", "a", "t"]);
            format!("\\w+{}\\w+", c)
        }
    }
}

pub fn gen_any(rng: &mut Rng, corpus: &[String]) -> String {
    match rng.weighted(&[10, 6, 2, 3]) {
        0 => {
            let budget = rng.range(1, 12);
            gen(rng, budget)
        }
        1 => gen_shape(rng),
        2 => gen_limit(rng),
        _ => {
            if corpus.is_empty() {
                gen_shape(rng)
            } else {
                rng.pick_ref(corpus).clone()
            }
        }
    }
}

/// Patterns excluded by the property statement (haystack anchors) or by the
/// generator's guards.
pub fn excluded(p: &str) -> bool {
    p.contains("\\A") || p.contains("\\z") || p.contains("(?-m") || p.contains("\\Z")
        || p.contains("(?s-m") || p.contains("-m)") || p.contains("-m:")
}

pub fn load_corpus() -> Vec<String> {
    let text = include_str!("../corpus/patterns.txt");
    text.lines()
        .filter(|l| !l.is_empty() && !excluded(l))
        .map(|l| l.to_string())
        .collect()
}
