//! C06 — serial and parallel traversal report the same entries, once each,
//! and (without ignore rules) exactly the entries an independent recursive
//! listing reaches under the same options.

use std::{
    collections::BTreeMap,
    fs,
    os::unix::fs::MetadataExt,
    path::{Path, PathBuf},
    sync::{Arc, Mutex},
};

use ignore::{WalkBuilder, WalkState};
use serde_json::{json, Value};

use crate::{
    report::Report,
    rng::{fnv_parts, Rng},
    treegen::{self, Kind, Node, Tree, TreeCfg},
    Ctx,
};

#[derive(Clone, Debug)]
pub struct WalkCfg {
    pub max_depth: Option<usize>,
    pub max_filesize: Option<u64>,
    pub follow_links: bool,
    pub same_file_system: bool,
    pub filter: bool,
    pub hidden: bool,
    pub use_ignore: bool,
    /// also read the ignore files of the roots' parent directories
    pub parents: bool,
    pub roots: Vec<String>,
}

impl WalkCfg {
    pub fn to_json(&self) -> Value {
        json!({
            "max_depth": self.max_depth, "max_filesize": self.max_filesize,
            "follow_links": self.follow_links, "same_file_system": self.same_file_system,
            "filter_entry": self.filter, "hidden": self.hidden,
            "use_ignore_file": self.use_ignore, "parents": self.parents, "roots": self.roots,
        })
    }
    pub fn from_json(v: &Value) -> WalkCfg {
        WalkCfg {
            max_depth: v["max_depth"].as_u64().map(|x| x as usize),
            max_filesize: v["max_filesize"].as_u64(),
            follow_links: v["follow_links"].as_bool().unwrap_or(false),
            same_file_system: v["same_file_system"].as_bool().unwrap_or(false),
            filter: v["filter_entry"].as_bool().unwrap_or(false),
            hidden: v["hidden"].as_bool().unwrap_or(false),
            use_ignore: v["use_ignore_file"].as_bool().unwrap_or(false),
            parents: v["parents"].as_bool().unwrap_or(false),
            roots: v["roots"].as_array().map(|a| a.iter().map(|x| x.as_str().unwrap_or("").to_string()).collect()).unwrap_or_default(),
        }
    }

    pub fn builder(&self, base: &Path) -> WalkBuilder {
        let root0 = base.join(&self.roots[0]);
        let mut b = WalkBuilder::new(&root0);
        for r in &self.roots[1..] {
            b.add(base.join(r));
        }
        b.standard_filters(false)
            .hidden(self.hidden)
            .ignore(self.use_ignore)
            .parents(self.parents)
            .max_depth(self.max_depth)
            .max_filesize(self.max_filesize)
            .follow_links(self.follow_links)
            .same_file_system(self.same_file_system);
        if self.filter {
            b.filter_entry(|e| filter_pred(e.file_name().to_string_lossy().as_ref()));
        }
        b
    }
}

pub fn filter_pred(name: &str) -> bool {
    name != "skipme.txt" && name != "skipdir"
}

pub fn gen_cfg(rng: &mut Rng, tree: &Tree) -> WalkCfg {
    let mut roots = vec![String::new()];
    match rng.below(6) {
        0 => {
            // several roots: sub directories
            let dirs: Vec<&Node> = tree.nodes.iter().filter(|n| n.kind == Kind::Dir).collect();
            if dirs.len() >= 2 {
                let a = dirs[rng.below(dirs.len())].path.clone();
                let b = dirs[rng.below(dirs.len())].path.clone();
                // distinct and not nested, so that no entry is reachable
                // from two roots
                let nested = a == b
                    || a.starts_with(&format!("{}/", b))
                    || b.starts_with(&format!("{}/", a));
                if !nested {
                    roots = vec![a, b];
                }
            }
        }
        1 => {
            // a root that is a file, plus the tree
            // a root that is a file next to a directory root that does not
            // contain it
            let f = tree.nodes.iter().find(|n| matches!(n.kind, Kind::File(_)) && !n.path.contains('/'));
            let d = tree.nodes.iter().find(|n| n.kind == Kind::Dir && !n.path.contains('/'));
            if let (Some(f), Some(d)) = (f, d) {
                roots = vec![f.path.clone(), d.path.clone()];
            }
        }
        _ => {}
    }
    WalkCfg {
        max_depth: if rng.chance(1, 2) { Some(rng.below(5)) } else { None },
        max_filesize: if rng.chance(1, 2) { Some(rng.pick(&[0u64, 9, 10, 11, 100, 2000])) } else { None },
        follow_links: rng.bool(),
        same_file_system: rng.chance(1, 3),
        filter: rng.bool(),
        hidden: rng.bool(),
        use_ignore: rng.chance(1, 4),
        parents: rng.chance(1, 2),
        roots,
    }
}

#[derive(Clone, Debug, Default, PartialEq, Eq)]
pub struct WalkResult {
    /// (path, depth) -> count
    pub entries: BTreeMap<(String, usize), usize>,
    pub loop_errors: usize,
    pub other_errors: usize,
}

fn record(res: &mut WalkResult, base: &Path, r: Result<ignore::DirEntry, ignore::Error>) {
    match r {
        Ok(d) => {
            let p = d.path().strip_prefix(base).unwrap_or(d.path()).to_string_lossy().into_owned();
            *res.entries.entry((p, d.depth())).or_insert(0) += 1;
        }
        Err(e) => {
            if e.to_string().contains("File system loop found") {
                res.loop_errors += 1;
            } else {
                res.other_errors += 1;
            }
        }
    }
}

pub fn serial_walk(cfg: &WalkCfg, base: &Path) -> WalkResult {
    let mut res = WalkResult::default();
    for r in cfg.builder(base).build() {
        record(&mut res, base, r);
    }
    res
}

pub fn parallel_walk(cfg: &WalkCfg, base: &Path, threads: usize) -> WalkResult {
    let res = Arc::new(Mutex::new(WalkResult::default()));
    let mut b = cfg.builder(base);
    b.threads(threads);
    let base2: PathBuf = base.to_path_buf();
    b.build_parallel().run(|| {
        let res = res.clone();
        let base = base2.clone();
        Box::new(move |r| {
            record(&mut res.lock().unwrap(), &base, r);
            WalkState::Continue
        })
    });
    let out = res.lock().unwrap().clone();
    out
}

/// Independent recursive listing with the same options (no ignore rules).
pub fn model_walk(cfg: &WalkCfg, base: &Path) -> Option<WalkResult> {
    let mut res = WalkResult::default();
    for r in &cfg.roots {
        let root = base.join(r);
        let lmeta = fs::symlink_metadata(&root).ok()?;
        if lmeta.file_type().is_symlink() {
            return None; // root symlinks are not modelled
        }
        let rel = r.clone();
        *res.entries.entry((rel.clone(), 0)).or_insert(0) += 1;
        if lmeta.is_dir() {
            let id = (lmeta.dev(), lmeta.ino());
            if cfg.max_depth.map_or(true, |m| 0 < m) {
                model_dir(cfg, base, &root, 1, &mut vec![id], &mut res);
            }
        }
    }
    Some(res)
}

fn model_dir(
    cfg: &WalkCfg,
    base: &Path,
    dir: &Path,
    depth: usize,
    ancestors: &mut Vec<(u64, u64)>,
    res: &mut WalkResult,
) {
    let rd = match fs::read_dir(dir) {
        Ok(rd) => rd,
        Err(_) => {
            res.other_errors += 1;
            return;
        }
    };
    for ent in rd.flatten() {
        let path = ent.path();
        let name = ent.file_name().to_string_lossy().into_owned();
        if cfg.hidden && name.starts_with('.') {
            continue;
        }
        if cfg.filter && !filter_pred(&name) {
            continue;
        }
        let lmeta = match fs::symlink_metadata(&path) {
            Ok(m) => m,
            Err(_) => {
                res.other_errors += 1;
                continue;
            }
        };
        let rel = path.strip_prefix(base).unwrap_or(&path).to_string_lossy().into_owned();
        let is_link = lmeta.file_type().is_symlink();
        let (is_dir, size, id) = if is_link && cfg.follow_links {
            match fs::metadata(&path) {
                Err(_) => {
                    res.other_errors += 1;
                    continue;
                }
                Ok(m) => (m.is_dir(), m.len(), (m.dev(), m.ino())),
            }
        } else {
            (lmeta.is_dir(), lmeta.len(), (lmeta.dev(), lmeta.ino()))
        };
        if is_dir {
            if is_link && ancestors.contains(&id) {
                res.loop_errors += 1;
                continue;
            }
            *res.entries.entry((rel, depth)).or_insert(0) += 1;
            if cfg.max_depth.map_or(true, |m| depth < m) {
                ancestors.push(id);
                model_dir(cfg, base, &path, depth + 1, ancestors, res);
                ancestors.pop();
            }
        } else {
            if let Some(max) = cfg.max_filesize {
                if size > max {
                    continue;
                }
            }
            *res.entries.entry((rel, depth)).or_insert(0) += 1;
        }
    }
}

fn diff(a: &WalkResult, b: &WalkResult) -> (Vec<String>, Vec<String>) {
    let mut only_a = vec![];
    let mut only_b = vec![];
    for (k, &c) in &a.entries {
        let cb = b.entries.get(k).copied().unwrap_or(0);
        if c > cb {
            only_a.push(format!("{}@{}", k.0, k.1));
        }
    }
    for (k, &c) in &b.entries {
        let ca = a.entries.get(k).copied().unwrap_or(0);
        if c > ca {
            only_b.push(format!("{}@{}", k.0, k.1));
        }
    }
    (only_a, only_b)
}

fn option_sig(cfg: &WalkCfg) -> String {
    let mut s = vec![];
    if cfg.max_depth.is_some() { s.push("depth"); }
    if cfg.max_filesize.is_some() { s.push("size"); }
    if cfg.follow_links { s.push("follow"); }
    if cfg.filter { s.push("filter"); }
    if cfg.hidden { s.push("hidden"); }
    if cfg.use_ignore { s.push("ignore"); }
    if cfg.use_ignore && cfg.parents { s.push("parents"); }
    if cfg.roots.len() > 1 { s.push("roots"); }
    s.join("+")
}

pub fn check_case(tree: &Tree, cfg: &WalkCfg, base: &Path, threads: &[usize], rep: &mut Report) {
    rep.evaluations += 1;
    let serial = serial_walk(cfg, base);
    let total: usize = serial.entries.values().sum();
    rep.add("serial_entries", total as u64);
    let replay = |extra: Value| json!({"tree": tree.to_json(), "cfg": cfg.to_json(), "detail": extra});
    if total > 1 {
        rep.nontrivial(fnv_parts(&[
            tree.to_json().to_string().as_bytes(),
            cfg.to_json().to_string().as_bytes(),
        ]));
    }
    if let Some((k, c)) = serial.entries.iter().find(|(_, &c)| c > 1) {
        rep.violation(
            "C06:serial:duplicate-entry",
            format!("serial walk yielded {:?} {} times ({})", k, c, option_sig(cfg)),
            || replay(json!({"entry": k.0})),
        );
    }
    if cfg.follow_links {
        rep.count("walks_following_links");
    }
    for &t in threads {
        let par = parallel_walk(cfg, base, t);
        rep.count("parallel_walks");
        rep.count(&format!("threads_{}", t));
        if let Some((k, c)) = par.entries.iter().find(|(_, &c)| c > 1) {
            rep.violation(
                "C06:parallel:duplicate-entry",
                format!("parallel walk ({} threads) yielded {:?} {} times", t, k, c),
                || replay(json!({"entry": k.0, "threads": t})),
            );
        }
        let (only_s, only_p) = diff(&serial, &par);
        if !only_s.is_empty() || !only_p.is_empty() {
            rep.violation(
                &format!(
                    "C06:serial-vs-parallel:{}:{}",
                    if !only_s.is_empty() { "only-serial" } else { "only-parallel" },
                    option_sig(cfg)
                ),
                format!(
                    "options {}: only serial {:?}, only parallel({}) {:?}",
                    cfg.to_json(), &only_s[..only_s.len().min(5)], t, &only_p[..only_p.len().min(5)]
                ),
                || replay(json!({"only_serial": only_s, "only_parallel": only_p, "threads": t})),
            );
        }
        if (serial.loop_errors > 0) != (par.loop_errors > 0) {
            rep.violation(
                "C06:serial-vs-parallel:loop-error",
                format!("loop errors: serial {}, parallel({}) {}", serial.loop_errors, t, par.loop_errors),
                || replay(json!({"threads": t})),
            );
        }
    }
    if !cfg.use_ignore {
        if let Some(model) = model_walk(cfg, base) {
            rep.count("walks_compared_with_independent_listing");
            rep.add("loop_errors_expected", model.loop_errors as u64);
            let (only_s, only_m) = diff(&serial, &model);
            if !only_s.is_empty() || !only_m.is_empty() {
                rep.violation(
                    &format!(
                        "C06:walk-vs-listing:{}:{}",
                        if !only_s.is_empty() { "walk-yields-unreachable" } else { "walk-misses-reachable" },
                        option_sig(cfg)
                    ),
                    format!(
                        "options {}: only walker {:?}, only independent listing {:?}",
                        cfg.to_json(), &only_s[..only_s.len().min(5)], &only_m[..only_m.len().min(5)]
                    ),
                    || replay(json!({"only_walk": only_s, "only_listing": only_m})),
                );
            }
            if model.loop_errors > 0 && serial.loop_errors == 0 {
                rep.violation(
                    "C06:cycle-without-loop-error",
                    format!("the tree has {} link cycle(s) on the walked paths but no loop error was reported", model.loop_errors),
                    || replay(json!({})),
                );
            }
        }
    }
    rep.sample(|| {
        json!({
            "tree_nodes": tree.nodes.len(), "cfg": cfg.to_json(),
            "entries": total, "loop_errors": serial.loop_errors,
            "first_entries": serial.entries.keys().take(5).map(|k| format!("{}@{}", k.0, k.1)).collect::<Vec<_>>(),
        })
    });
}

/// `.ignore` files at the top and in some sub directories, with rules over
/// the names the tree generator uses: plain names, directory-only rules,
/// anchored rules, extensions, re-inclusions. Nested files matter: their
/// rules must stop applying once the walk has left their directory, however
/// many levels it ascends at once.
fn add_ignore_files(rng: &mut Rng, tree: &mut Tree) {
    if rng.chance(1, 3) {
        return;
    }
    const RULES: &[&str] = &[
        "a", "b", "c", "g", "z", "d1/", "big", "x-y", "*.rs", "*.txt", "*.md",
        "!f.rs", "!e.txt", "!h.md", "/a", "/g", "**/c", "skipme.txt", ".h",
        "!a", "!g", "e.*", "[a-c]", "z/", "!d1/",
    ];
    let mut dirs: Vec<String> = tree
        .nodes
        .iter()
        .filter(|n| n.kind == Kind::Dir)
        .map(|n| n.path.clone())
        .collect();
    rng.shuffle(&mut dirs);
    dirs.truncate(rng.below(4));
    if rng.chance(2, 3) {
        dirs.push(String::new());
    }
    for d in dirs {
        let mut text = String::new();
        for _ in 0..rng.range(1, 4) {
            text.push_str(rng.pick(RULES));
            text.push('\n');
        }
        // anchored paths of real entries at least two levels below this
        // file: they mean the same whichever roots are walked
        let pre = if d.is_empty() { String::new() } else { format!("{}/", d) };
        let below: Vec<String> = tree
            .nodes
            .iter()
            .filter(|n| n.path.starts_with(&pre) && n.path[pre.len()..].contains('/'))
            .map(|n| n.path[pre.len()..].to_string())
            .collect();
        for _ in 0..rng.below(3) {
            if !below.is_empty() {
                text.push_str(rng.pick(&["/", "", "!/"]));
                text.push_str(rng.pick_ref(&below[..]).as_str());
                text.push('\n');
            }
        }
        let path = if d.is_empty() { ".ignore".to_string() } else { format!("{}/.ignore", d) };
        if tree.nodes.iter().any(|n| n.path == path) {
            continue;
        }
        tree.nodes.push(Node { path, kind: Kind::Text(text) });
    }
}

pub fn run(ctx: &Ctx) -> Report {
    let ntrees = ctx.cases(800, 10_000);
    let ncfg = if ctx.is_thorough() { 12 } else { 6 };
    let thorough = ctx.is_thorough();
    crate::par_cases(ctx, 6, ntrees, |rng, i, rep| {
        let tcfg = TreeCfg {
            max_depth: rng.range(1, 4),
            max_fanout: rng.range(1, 6),
            links: true,
            max_nodes: 150,
        };
        let mut tree = treegen::gen_tree(rng, &tcfg);
        add_ignore_files(rng, &mut tree);
        let (private, base) = treegen::fresh_dir("c06", (ctx.seed << 20) ^ i as u64);
        if tree.materialise(&base).is_err() {
            rep.inconclusive += 1;
            let _ = fs::remove_dir_all(&private);
            return;
        }
        let has_ignore_files =
            tree.nodes.iter().any(|n| matches!(n.kind, Kind::Text(_)));
        for _ in 0..ncfg {
            let mut cfg = gen_cfg(rng, &tree);
            if has_ignore_files && rng.chance(1, 2) {
                cfg.use_ignore = true;
            }
            // several roots below a directory with an ignore file: the
            // parents' rules must reach every root alike
            if has_ignore_files && cfg.roots.len() > 1 && rng.chance(3, 4) {
                cfg.use_ignore = true;
                cfg.parents = true;
            }
            let threads: Vec<usize> = if thorough {
                vec![1, 2, 3, 4, 8, 16]
            } else {
                let all = [1usize, 2, 3, 4, 8, 16];
                vec![rng.pick(&all), rng.pick(&all)]
            };
            // with same_file_system, sometimes one more root on ANOTHER file
            // system (/dev/shm, when the sandbox has it): every root is
            // measured against its own device
            let mut shm: Option<std::path::PathBuf> = None;
            if cfg.same_file_system && rng.chance(1, 2) {
                let d = std::path::PathBuf::from(format!(
                    "/dev/shm/rgmon-c06-{}-{}-{}",
                    std::process::id(),
                    i,
                    rng.below(1 << 30)
                ));
                if fs::create_dir_all(d.join("other/sub")).is_ok()
                    && fs::write(d.join("other/o1.txt"), b"x").is_ok()
                    && fs::write(d.join("other/sub/o2.rs"), b"xy").is_ok()
                {
                    let r = d.join("other").to_string_lossy().into_owned();
                    if rng.bool() {
                        cfg.roots.insert(0, r);
                    } else {
                        cfg.roots.push(r);
                    }
                    rep.count("walks_with_a_root_on_another_file_system");
                    shm = Some(d);
                } else {
                    let _ = fs::remove_dir_all(&d);
                }
            }
            check_case(&tree, &cfg, &base, &threads, rep);
            if let Some(d) = shm {
                let _ = fs::remove_dir_all(&d);
            }
        }
        let _ = fs::remove_dir_all(&private);
    })
}

pub fn replay(v: &Value) -> Report {
    let mut rep = Report::new();
    let tree = Tree::from_json(&v["tree"]);
    let cfg = WalkCfg::from_json(&v["cfg"]);
    let (private, base) = treegen::fresh_dir("c06r", 0);
    if tree.materialise(&base).is_ok() {
        // a root on the other file system is rebuilt as the run had it
        let mut made = vec![];
        for r in &cfg.roots {
            if r.starts_with("/dev/shm/rgmon-c06-") {
                let d = std::path::PathBuf::from(r);
                let _ = fs::create_dir_all(d.join("sub"));
                let _ = fs::write(d.join("o1.txt"), b"x");
                let _ = fs::write(d.join("sub/o2.rs"), b"xy");
                if let Some(p) = d.parent() {
                    made.push(p.to_path_buf());
                }
            }
        }
        check_case(&tree, &cfg, &base, &[1, 2, 4, 8], &mut rep);
        for d in made {
            let _ = fs::remove_dir_all(d);
        }
    }
    let _ = fs::remove_dir_all(&private);
    rep
}
