//! C03 — results follow the grep model: order, uniqueness, context windows,
//! separators, numbering, byte count.

use serde_json::{json, Value};

use crate::{
    c02::{run_spec, LegSpec, CAPS},
    ctxgen::{self, CtxCase},
    model::{compare, grep_model, log_invariants, split_lines},
    oracle::Oracle,
    report::{esc_short, Report},
    rng::{fnv_parts, Rng},
    run::Leg,
    sinklog::log_to_json,
    Ctx,
};

pub fn gen_legs(rng: &mut Rng, thorough: bool) -> Vec<LegSpec> {
    let mut legs = vec![
        LegSpec { leg: Leg::Slice, multiline: false },
        LegSpec {
            leg: Leg::Reader {
                cap: Some(rng.pick(CAPS)),
                script: vec![],
                tail: rng.range(1, 9),
                cycle: false,
            },
            multiline: false,
        },
    ];
    match rng.below(4) {
        0 => legs.push(LegSpec { leg: Leg::File { mmap: true }, multiline: false }),
        1 => legs.push(LegSpec { leg: Leg::Slice, multiline: true }),
        2 => legs.push(LegSpec {
            leg: Leg::Reader { cap: Some(rng.pick(CAPS)), script: vec![], tail: rng.range(1, 64), cycle: false },
            multiline: true,
        }),
        _ => legs.push(LegSpec {
            leg: Leg::Reader { cap: None, script: vec![], tail: 1 << 16, cycle: false },
            multiline: false,
        }),
    }
    if thorough {
        legs.push(LegSpec { leg: Leg::File { mmap: false }, multiline: false });
        legs.push(LegSpec {
            leg: Leg::Reader { cap: Some(rng.pick(CAPS)), script: vec![], tail: 1, cycle: false },
            multiline: true,
        });
    }
    legs
}

pub fn check_case(case: &CtxCase, legs: &[LegSpec], rep: &mut Report) {
    rep.evaluations += 1;
    let orc = match Oracle::build(&[case.pattern.clone()], &case.flags(false)) {
        Ok(o) => o,
        Err(_) => {
            rep.count("oracle_failed");
            return;
        }
    };
    if orc.engine_disagrees(&case.input) {
        // the regex library contradicts itself on this (pattern, input):
        // recorded once, under C01; no verdict here
        rep.count("skipped_regex_engine_disagrees_with_itself");
        return;
    }
    let term = case.cfg.term;
    let lines = split_lines(&case.input, term);
    let mask: Vec<bool> = lines
        .iter()
        .map(|l| orc.line_matches(&case.input[l.start..l.content_end]))
        .collect();
    let expect = grep_model(&case.input, &lines, &mask, &case.cfg.grep_cfg());
    let nm = mask.iter().filter(|&&m| m).count();
    if nm > 0 && nm < lines.len() {
        rep.nontrivial(fnv_parts(&[
            format!("{:?}", case.cfg).as_bytes(),
            &case.input,
        ]));
    }
    rep.add("model_events", expect.len() as u64);
    let nbreaks = expect
        .iter()
        .filter(|e| matches!(e, crate::model::Expect::Exact(crate::sinklog::Event::Break)))
        .count();
    rep.add("model_separators", nbreaks as u64);
    let nctx = expect
        .iter()
        .filter(|e| {
            matches!(
                e,
                crate::model::Expect::Exact(crate::sinklog::Event::Context { .. })
                    | crate::model::Expect::ContextEither { .. }
            )
        })
        .count();
    rep.add("model_context_lines", nctx as u64);
    if case.cfg.after > 0 || case.cfg.before > 0 {
        rep.count("cases_with_context");
    }
    if case.cfg.passthru {
        rep.count("cases_passthru");
    }
    if case.cfg.invert {
        rep.count("cases_inverted");
    }
    if case.cfg.stop_on_nonmatch {
        rep.count("cases_stop_on_nonmatch");
    }
    for spec in legs {
        if spec.multiline && case.cfg.stop_on_nonmatch {
            continue;
        }
        let out = match run_spec(case, spec) {
            Ok(o) => o,
            Err(_) => {
                rep.count("matcher_build_failed");
                continue;
            }
        };
        rep.count("legs_run");
        let legname = format!("{}{}", spec.leg.short(), if spec.multiline { "-ml" } else { "" });
        if let Err(e) = &out.result {
            rep.violation(
                &format!("C03:{}:search-error", legname),
                format!("search failed: {}", e),
                || json!({"case": case.to_json(), "leg": spec.leg.to_json(), "multiline": spec.multiline}),
            );
            continue;
        }
        let out_log = if spec.multiline {
            crate::model::flatten(&out.log, case.cfg.term)
        } else {
            out.log.clone()
        };
        let out = crate::run::Outcome { log: out_log, ..out };
        if let Err(msg) = log_invariants(&out.log) {
            rep.violation(
                &format!("C03:{}:invariant", legname),
                format!("log invariant broken: {}", msg),
                || json!({"case": case.to_json(), "leg": spec.leg.to_json(),
                          "multiline": spec.multiline, "log": log_to_json(&out.log)}),
            );
            continue;
        }
        if let Some(i) = compare(&expect, &out.log) {
            let ek = expect.get(i).map_or("none".to_string(), |e| match e {
                crate::model::Expect::Exact(ev) => ev.kind_name().to_string(),
                crate::model::Expect::ContextEither { .. } => "context".into(),
                crate::model::Expect::FinishAny => "finish".into(),
            });
            let gk = out.log.get(i).map_or("none", |e| e.kind_name());
            rep.violation(
                &format!("C03:{}:expected-{}-got-{}", legname, ek, gk),
                format!(
                    "event {}: model expects {}, searcher delivered {} (cfg {}, input {})",
                    i,
                    expect.get(i).map_or("<none>".into(), |e| e.to_json().to_string()),
                    out.log.get(i).map_or("<none>".into(), |e| e.to_json().to_string()),
                    case.cfg.to_json(),
                    esc_short(&case.input, 80)
                ),
                || {
                    json!({
                        "case": case.to_json(), "leg": spec.leg.to_json(),
                        "multiline": spec.multiline, "first_difference": i,
                        "model": expect.iter().map(|e| e.to_json()).collect::<Vec<_>>(),
                        "log": log_to_json(&out.log),
                    })
                },
            );
        }
    }
    rep.sample(|| {
        json!({
            "cfg": case.cfg.to_json(), "pattern": case.pattern,
            "mask": mask.iter().map(|&m| if m { 'm' } else { '.' }).collect::<String>(),
            "input": esc_short(&case.input, 80),
            "model_events": expect.len(),
        })
    });
}

pub fn run(ctx: &Ctx) -> Report {
    let n = ctx.cases(40_000, 3_000_000);
    let thorough = ctx.is_thorough();
    crate::par_cases(ctx, 3, n, |rng, _i, rep| {
        let case = ctxgen::gen_case(rng);
        let legs = gen_legs(rng, thorough);
        check_case(&case, &legs, rep);
    })
}

pub fn replay(v: &Value) -> Report {
    let mut rep = Report::new();
    let case = CtxCase::from_json(&v["case"]);
    let spec = LegSpec {
        leg: Leg::from_json(&v["leg"]),
        multiline: v["multiline"].as_bool().unwrap_or(false),
    };
    check_case(&case, &[spec], &mut rep);
    rep
}
