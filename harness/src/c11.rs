//! C11 — line-mode matcher promises hold for every accepted pattern over all
//! lines (as far as a monitor can tell: lines are drawn from the pattern's
//! own languages and from exhaustive small alphabets around its literals).

use grep_matcher::{LineMatchKind, Matcher};
use grep_regex::RegexMatcher;
use regex_syntax::hir::Hir;
use serde_json::{json, Value};

use crate::{
    c01,
    hirsample::{literal_bytes, Sampler},
    inputgen,
    model::Term,
    oracle::{self, Oracle, PatFlags},
    patgen,
    report::{esc, esc_short, unesc, Report},
    rng::{fnv_parts, Rng},
    Ctx,
};

#[derive(Clone, Debug)]
pub struct Case11 {
    pub patterns: Vec<String>,
    pub flags: PatFlags,
}

/// Deterministic small patterns: the i-th element of the enumeration of the
/// generator's grammar at small sizes.
pub fn enumerate_pattern(i: usize) -> String {
    let atoms: Vec<&str> = patgen::LITS
        .iter()
        .chain(patgen::CLASSES.iter())
        .chain([".", ""].iter())
        .copied()
        .collect();
    let na = atoms.len();
    let form = i % 6;
    let j = i / 6;
    let a = atoms[j % na];
    let b = atoms[(j / na) % na];
    let c = atoms[(j / (na * na)) % na];
    let rep = patgen::REPS[(j / na) % patgen::REPS.len()];
    let look = patgen::LOOKS[(j / na) % patgen::LOOKS.len()];
    match form {
        0 => format!("{}{}", a, b),
        1 => format!("{}|{}", a, b),
        2 => format!("(?:{}){}", a, rep),
        3 => format!("{}{}{}", look, a, c),
        4 => format!("{}(?:{}|{}){}", c, a, b, rep),
        _ => format!("{}{}{}", a, b, look),
    }
}

pub fn gen_case(rng: &mut Rng, corpus: &[String], i: usize) -> Option<Case11> {
    let flags = c01::gen_flags(rng);
    let npat = if rng.chance(1, 8) { 2 } else { 1 };
    let mut patterns = vec![];
    for k in 0..npat {
        let p = if flags.fixed {
            c01::gen_fixed(rng)
        } else if i % 2 == 0 && k == 0 {
            enumerate_pattern(i / 2)
        } else {
            patgen::gen_any(rng, corpus)
        };
        if !flags.fixed && patgen::excluded(&p) {
            return None;
        }
        patterns.push(p);
    }
    Some(Case11 { patterns, flags })
}

fn term_bytes(t: Term) -> Vec<u8> {
    match t {
        Term::Lf => vec![b'\n'],
        Term::Crlf => vec![b'\r', b'\n'],
        Term::Nul => vec![0],
    }
}

fn all_matches(m: &RegexMatcher, hay: &[u8]) -> Vec<(usize, usize)> {
    let mut out = vec![];
    let _ = m.find_iter(hay, |mat| {
        out.push((mat.start(), mat.end()));
        out.len() < 64
    });
    out
}

/// Emulate the searcher's fast candidate loop over a buffer of terminated
/// lines; returns the indices of the lines it visited.
fn candidate_visits(m: &RegexMatcher, buf: &[u8], line_starts: &[usize]) -> Vec<usize> {
    let mut visited = vec![];
    let mut pos = 0;
    let mut guard = 0;
    while pos < buf.len() && guard < 10_000 {
        guard += 1;
        let r = match m.find_candidate_line(&buf[pos..]) {
            Ok(r) => r,
            Err(_) => break,
        };
        let i = match r {
            None => break,
            Some(LineMatchKind::Confirmed(i)) | Some(LineMatchKind::Candidate(i)) => pos + i,
        };
        if i >= buf.len() {
            break;
        }
        // line containing position i
        let li = match line_starts.binary_search(&i) {
            Ok(k) => k,
            Err(k) => k - 1,
        };
        visited.push(li);
        let end = line_starts.get(li + 1).copied().unwrap_or(buf.len());
        pos = end;
    }
    visited
}

pub fn check_case(case: &Case11, rng: &mut Rng, thorough: bool, rep: &mut Report) {
    rep.evaluations += 1;
    let term = case.flags.term;
    let tbytes = term_bytes(term);
    let matcher = match oracle::build_matcher(&case.patterns, &case.flags) {
        Ok(m) => m,
        Err(_) => {
            rep.count("patterns_rejected_by_builder");
            return;
        }
    };
    let orc = match Oracle::build(&case.patterns, &case.flags) {
        Ok(o) => o,
        Err(_) => {
            rep.count("oracle_unsettled_or_failed");
            return;
        }
    };
    let case_json = || json!({"patterns": case.patterns, "flags": case.flags.to_json()});
    // promise 0: the declared line terminator
    if let Some(lt) = matcher.line_terminator() {
        if lt != term.to_grep() {
            rep.violation(
                "C11:line-terminator-mismatch",
                format!("matcher declares terminator {:?}, configured {:?}", lt, term),
                || case_json(),
            );
        }
    }
    let hirs: Vec<Hir> = c01::sampling_hirs(&case.patterns, &case.flags, &orc);
    let (_, lits) = oracle::matcher_builder(&case.flags)
        .verif_describe(&case.patterns)
        .unwrap_or((Hir::empty(), None));
    if lits.is_some() {
        rep.count("patterns_with_inner_literal_prefilter");
    }
    let nmb = matcher.non_matching_bytes().cloned();
    let declared: Vec<u8> = match &nmb {
        Some(set) => (0..=255u8).filter(|&b| set.contains(b)).collect(),
        None => vec![],
    };
    rep.add("declared_non_matching_bytes", declared.len() as u64);

    // ---- the lines: language samples, mutations, exhaustive small alphabet
    let mut lines: Vec<Vec<u8>> = vec![];
    let nsamples = if thorough { 60 } else { 24 };
    for h in &hirs {
        for _ in 0..nsamples {
            let mut sm = Sampler::new(rng);
            sm.max_len = 60;
            sm.avoid = vec![term.byte()];
            let mut w = sm.sample(h);
            if rng.chance(1, 3) {
                inputgen::mutate(rng, &mut w);
            }
            lines.push(w);
        }
    }
    let mut alpha: Vec<u8> = vec![];
    for h in &hirs {
        literal_bytes(h, &mut alpha);
    }
    alpha.retain(|b| !tbytes.contains(b));
    alpha.truncate(4);
    alpha.push(b'q');
    let maxlen = if thorough { 5 } else { 4 };
    let small_pattern = case.patterns.iter().map(|p| p.len()).sum::<usize>() <= 24;
    if small_pattern {
        rep.count("patterns_with_exhaustive_small_alphabet_lines");
        let mut level: Vec<Vec<u8>> = vec![vec![]];
        lines.push(vec![]);
        for _ in 0..maxlen {
            let mut next = vec![];
            for w in &level {
                for &c in &alpha {
                    let mut x = w.clone();
                    x.push(c);
                    next.push(x);
                }
            }
            lines.extend(next.iter().cloned());
            level = next;
        }
    }
    for _ in 0..8 {
        lines.push(inputgen::noise_line(rng, 6));
    }
    // keep only terminator-free lines for the per-line promises
    for l in lines.iter_mut() {
        l.retain(|b| !tbytes.contains(b) && *b != term.byte());
    }
    lines.sort();
    lines.dedup();
    rep.add("lines_examined", lines.len() as u64);

    let mut matching: Vec<usize> = vec![];
    let mut any_non = false;
    for (li, w) in lines.iter().enumerate() {
        // promise 2: the accepted pattern's language over terminator-free
        // lines is the user's
        let want = orc.line_matches(w);
        let got = matcher.is_match(w).unwrap_or(false);
        if want {
            matching.push(li);
        } else {
            any_non = true;
        }
        if want != got && orc.re.meta.is_match(w) != want {
            // the regex library contradicts itself on this line (optimised
            // engine vs NFA simulation): recorded under C01, no verdict here
            rep.count("skipped_regex_engine_disagrees_with_itself");
            continue;
        }
        if want != got {
            // the known regex-engine quirk cannot show here (isolated line)
            rep.violation(
                &format!(
                    "C11:{}:language-changed:{}",
                    term.name(),
                    if want { "line-no-longer-matches" } else { "line-newly-matches" }
                ),
                format!(
                    "pattern {:?} flags {:?}: line {:?}: user's pattern {} but the built matcher {}",
                    case.patterns,
                    case.flags.cli_args(),
                    esc(w),
                    if want { "matches" } else { "does not match" },
                    if got { "matches" } else { "does not match" }
                ),
                || json!({"case": case_json(), "line": esc(w)}),
            );
            continue;
        }
        // promise 3: declared non-matching bytes occur in no match
        if got {
            for (s, e) in all_matches(&matcher, w) {
                if let Some(&b) = w[s..e].iter().find(|b| declared.contains(b)) {
                    rep.violation(
                        &format!("C11:{}:non-matching-byte-inside-match", term.name()),
                        format!(
                            "pattern {:?}: byte {:?} is declared non-matching but lies inside match {}..{} of {:?}",
                            case.patterns, esc(&[b]), s, e, esc(w)
                        ),
                        || json!({"case": case_json(), "line": esc(w)}),
                    );
                }
            }
        }
    }
    if !matching.is_empty() && any_non {
        rep.nontrivial(fnv_parts(&[
            case.patterns.join("\x01").as_bytes(),
            format!("{:?}", case.flags).as_bytes(),
        ]));
    }
    rep.add("matching_lines", matching.len() as u64);

    // promise 3, directed: plant declared non-matching bytes inside matches
    let mut planted = 0;
    for &li in matching.iter().take(if thorough { 40 } else { 12 }) {
        let w = &lines[li];
        let ms = all_matches(&matcher, w);
        let (s, e) = match ms.first() {
            Some(&x) => x,
            None => continue,
        };
        if s == e || declared.is_empty() {
            continue;
        }
        for _ in 0..6 {
            let b = if rng.chance(1, 3) { term.byte() } else { rng.pick(&declared) };
            let i = s + rng.below(e - s);
            let mut w2 = w.clone();
            w2[i] = b;
            planted += 1;
            for (s2, e2) in all_matches(&matcher, &w2) {
                if s2 <= i && i < e2 && declared.contains(&b) {
                    rep.violation(
                        &format!("C11:{}:non-matching-byte-inside-match", term.name()),
                        format!(
                            "pattern {:?}: planted byte {:?} (declared non-matching) at {} lies inside match {}..{} of {:?}",
                            case.patterns, esc(&[b]), i, s2, e2, esc(&w2)
                        ),
                        || json!({"case": case_json(), "line": esc(&w2)}),
                    );
                }
            }
        }
    }
    rep.add("non_matching_bytes_planted", planted);

    // promise 1: no match contains the terminator; haystacks = lines joined
    // with the terminator and terminators spliced into samples
    let tstr: &[u8] = match term {
        Term::Lf => b"\n",
        Term::Crlf => b"\r\n",
        Term::Nul => b"\0",
    };
    if matcher.line_terminator().is_some() {
        let mut hays: Vec<Vec<u8>> = vec![];
        let mut joined = vec![];
        for w in lines.iter().take(200) {
            joined.extend_from_slice(w);
            joined.extend_from_slice(tstr);
        }
        hays.push(joined);
        for &li in matching.iter().take(if thorough { 30 } else { 10 }) {
            let w = &lines[li];
            for i in 0..=w.len().min(12) {
                let mut h = w[..i].to_vec();
                h.extend_from_slice(tstr);
                h.extend_from_slice(&w[i..]);
                hays.push(h);
            }
        }
        rep.add("terminator_haystacks", hays.len() as u64);
        for h in &hays {
            for (s, e) in all_matches(&matcher, h) {
                if h[s..e].iter().any(|b| tbytes.contains(b)) {
                    rep.violation(
                        &format!("C11:{}:match-contains-terminator", term.name()),
                        format!(
                            "pattern {:?} flags {:?}: match {}..{} of {:?} contains the line terminator",
                            case.patterns, case.flags.cli_args(), s, e, esc_short(h, 80)
                        ),
                        || json!({"case": case_json(), "haystack": esc(h)}),
                    );
                    break;
                }
            }
        }
    }

    // promise 4: the candidate-line search never passes over a matching line
    let fast_eligible = term != Term::Nul
        && (matcher.line_terminator().is_some()
            || nmb.as_ref().map_or(false, |s| s.contains(term.byte())));
    if fast_eligible && !matching.is_empty() {
        let rounds = if thorough { 12 } else { 4 };
        for _ in 0..rounds {
            // buffer of noise / non-matching lines with a few matching lines
            let mut buf = vec![];
            let mut starts = vec![];
            let mut is_match_line = vec![];
            let n = rng.range(3, 12);
            for _ in 0..n {
                let li = if rng.chance(1, 3) {
                    matching[rng.below(matching.len())]
                } else {
                    rng.below(lines.len())
                };
                starts.push(buf.len());
                buf.extend_from_slice(&lines[li]);
                buf.extend_from_slice(tstr);
                is_match_line.push(orc.line_matches(&lines[li]));
            }
            let visited = candidate_visits(&matcher, &buf, &starts);
            rep.count("candidate_loops_emulated");
            for (k, &mm) in is_match_line.iter().enumerate() {
                if mm && !visited.contains(&k) {
                    let end = starts.get(k + 1).copied().unwrap_or(buf.len());
                    rep.violation(
                        &format!("C11:{}:candidate-search-passes-over-matching-line", term.name()),
                        format!(
                            "pattern {:?} flags {:?} (prefilter literals {:?}): line {} {:?} matches but find_candidate_line never stopped on it",
                            case.patterns,
                            case.flags.cli_args(),
                            lits.as_ref().map(|v| v.iter().map(|l| esc(l)).collect::<Vec<_>>()),
                            k,
                            esc(&buf[starts[k]..end])
                        ),
                        || json!({"case": case_json(), "buffer": esc(&buf)}),
                    );
                    break;
                }
            }
        }
    }
    rep.sample(|| {
        json!({
            "patterns": case.patterns, "flags": case.flags.cli_args(),
            "lines_examined": lines.len(), "matching": matching.len(),
            "prefilter_literals": lits.as_ref().map(|v| v.iter().map(|l| esc(l)).collect::<Vec<_>>()),
            "declared_non_matching_bytes": declared.len(),
            "example_lines": lines.iter().take(4).map(|l| esc(l)).collect::<Vec<_>>(),
        })
    });
}

/// Patterns that can only match together with the terminator must be
/// rejected by the builder, not silently altered.
pub fn check_must_reject(rng: &mut Rng, corpus: &[String], rep: &mut Report) {
    let mut flags = c01::gen_flags(rng);
    flags.fixed = false;
    let a = patgen::gen(rng, 3);
    let b = patgen::gen(rng, 3);
    let wrap = |p: &str| if p.contains('|') { format!("(?:{})", p) } else { p.to_string() };
    let t = match flags.term {
        Term::Lf => "\\n",
        Term::Nul => "\\x00",
        Term::Crlf => rng.pick(&["\\n", "\\r"]),
    };
    let forms = [
        format!("{}{}{}", wrap(&a), t, wrap(&b)),
        format!("{}[{}]{}", wrap(&a), t, wrap(&b)),
        format!("{}(?:{}){}", wrap(&a), t, wrap(&b)),
        format!("{}{}+{}", wrap(&a), t, wrap(&b)),
        format!("{}({}){}", wrap(&a), t, wrap(&b)),
        format!("{}{}{{2}}{}", wrap(&a), t, wrap(&b)),
        format!("{}(?:{}|{}){}", wrap(&a), t, t, wrap(&b)),
        format!("{}", t),
    ];
    let mut p = rng.pick_ref(&forms).clone();
    let _ = corpus;
    // Half of the time the terminator is written as a raw character inside
    // a plain literal / fixed string (possibly next to other -e patterns):
    // those take the builder's literal shortcut instead of the regex parser.
    let mut extra: Vec<String> = vec![];
    let raw_literal = rng.chance(1, 2);
    if raw_literal {
        let tch = match flags.term {
            Term::Lf => "\n",
            Term::Nul => "\0",
            Term::Crlf => rng.pick(&["\n", "\r", "\r\n"]),
        };
        let l1 = rng.pick(&["foo", "a", "", "x y", "bar"]);
        let l2 = rng.pick(&["bar", "b", "", "z"]);
        p = format!("{}{}{}", l1, tch, l2);
        flags.fixed = rng.bool();
        flags.case = crate::oracle::Case::Sensitive;
        if rng.bool() {
            extra.push("zzz".to_string());
        }
        let mut pats = extra.clone();
        pats.insert(rng.below(pats.len() + 1), p.clone());
        rep.evaluations += 1;
        rep.count("must_reject_raw_literal_patterns_tried");
        if let Ok(m) = oracle::build_matcher(&pats, &flags) {
            if m.line_terminator().is_some() {
                rep.violation(
                    &format!("C11:{}:literal-with-raw-terminator-accepted", flags.term.name()),
                    format!("patterns {:?} (flags {:?}) contain the line terminator as a raw character but the builder accepted them", pats, flags.cli_args()),
                    || json!({"case": {"patterns": pats, "flags": flags.to_json()}, "must_reject": true}),
                );
            }
        } else {
            rep.count("must_reject_patterns_rejected");
            rep.nontrivial(fnv_parts(&[p.as_bytes(), format!("{:?}", flags).as_bytes()]));
        }
        return;
    }
    rep.evaluations += 1;
    rep.count("must_reject_patterns_tried");
    // only meaningful if the pattern without the terminator piece is fine
    if oracle::build_matcher(&[format!("{}{}", wrap(&a), wrap(&b))], &flags).is_err() {
        return;
    }
    if let Ok(m) = oracle::build_matcher(&[p.clone()], &flags) {
        if m.line_terminator().is_some() {
            rep.violation(
                &format!("C11:{}:pattern-requiring-terminator-accepted", flags.term.name()),
                format!("pattern {:?} (flags {:?}) can only match with the line terminator but the builder accepted it", p, flags.cli_args()),
                || json!({"case": {"patterns": [p], "flags": flags.to_json()}, "must_reject": true}),
            );
        }
    } else {
        rep.count("must_reject_patterns_rejected");
        rep.nontrivial(fnv_parts(&[p.as_bytes(), format!("{:?}", flags).as_bytes()]));
    }
}

pub fn run(ctx: &Ctx) -> Report {
    let corpus = patgen::load_corpus();
    let n = ctx.cases(20_000, 600_000);
    let thorough = ctx.is_thorough();
    crate::par_cases(ctx, 11, n, |rng, i, rep| {
        if i % 10 == 9 {
            check_must_reject(rng, &corpus, rep);
        } else if let Some(case) = gen_case(rng, &corpus, i) {
            check_case(&case, rng, thorough, rep);
        }
    })
}

pub fn replay(v: &Value) -> Report {
    let mut rep = Report::new();
    let c = &v["case"];
    let case = Case11 {
        patterns: c["patterns"].as_array().unwrap().iter().map(|x| x.as_str().unwrap().to_string()).collect(),
        flags: PatFlags::from_json(&c["flags"]),
    };
    if v["must_reject"].as_bool().unwrap_or(false) {
        if let Ok(m) = oracle::build_matcher(&case.patterns, &case.flags) {
            if m.line_terminator().is_some() {
                rep.violation("C11:pattern-requiring-terminator-accepted", "accepted".to_string(), || v.clone());
            }
        }
        return rep;
    }
    let mut rng = Rng::new(7);
    check_case(&case, &mut rng, true, &mut rep);
    let _ = unesc;
    rep
}
