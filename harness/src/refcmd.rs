//! `rgmon clicases` / `rgmon ref`: case generation and reference results for
//! the black-box CLI monitors, which need Rust-regex semantics (Python's `re`
//! is a different dialect and is never used as an oracle).

use regex_automata::Input;
use serde_json::{json, Value};

use crate::{
    c01,
    model::{split_lines, Term},
    oracle::{Oracle, PatFlags},
    patgen,
    report::{esc, unesc},
    rng::{self, Rng},
};

/// Per-line reference: does the line match, and the successive leftmost
/// non-overlapping match spans inside the line's content (line-relative).
pub fn line_reference(orc: &Oracle, input: &[u8], term: Term) -> Value {
    line_reference_q(orc, input, term, false)
}

/// `unicode_word`: the compiled pattern contains a Unicode word boundary;
/// lines next to invalid UTF-8 whose verdict flips when the reference regex
/// sees them inside the buffer are flagged `quirk` (see c01::classify).
pub fn line_reference_q(
    orc: &Oracle,
    input: &[u8],
    term: Term,
    unicode_word: bool,
) -> Value {
    let case_engine_quirk = orc.engine_disagrees(input);
    let lines = split_lines(input, term);
    let mut out = vec![];
    for (i, l) in lines.iter().enumerate() {
        let content = &input[l.start..l.content_end];
        let spans = content_spans(orc, content);
        let mut quirk = false;
        if unicode_word {
            let from = l.start.saturating_sub(4);
            if std::str::from_utf8(&input[from..l.end]).is_err() {
                let alone = orc.line_matches(content);
                let in_ctx = orc
                    .re
                    .search(&Input::new(input).span(l.start..l.content_end))
                    .is_some();
                quirk = alone != in_ctx;
                if !quirk {
                    // the match positions can be context dependent too
                    quirk = spans_in_context(orc, input, l.start, l.content_end) != spans;
                }
            }
        }
        // the regex library's optimised engine and its NFA simulation
        // disagree on this line (alone or inside the buffer)
        // (case level: a wrong match of the buffer search can surface on any
        // line of the input)
        let engine_quirk = case_engine_quirk;
        out.push(json!({
            "quirk": quirk || engine_quirk,
            "engine_quirk": engine_quirk,
            "n": i + 1,
            "start": l.start,
            "end": l.end,
            "content_end": l.content_end,
            "matched": orc.line_matches(content),
            "spans": spans,
        }));
    }
    Value::Array(out)
}

/// Like `content_spans`, but the reference regex sees the line inside the
/// whole input (look-around context = neighbouring lines).
pub fn spans_in_context(
    orc: &Oracle,
    input: &[u8],
    start: usize,
    content_end: usize,
) -> Vec<(usize, usize)> {
    let mut spans = vec![];
    let mut segs: Vec<(usize, usize)> = vec![];
    if orc.term == Term::Crlf {
        let mut s = start;
        for i in start..content_end {
            if input[i] == b'\r' {
                segs.push((s, i));
                s = i + 1;
            }
        }
        segs.push((s, content_end));
    } else {
        segs.push((start, content_end));
    }
    for (s, e) in segs {
        let mut at = s;
        let mut last_end: Option<usize> = None;
        while at <= e {
            match orc.re.search(&Input::new(input).span(at..e)) {
                None => break,
                Some(m) => {
                    if m.is_empty() && last_end == Some(m.start()) {
                        at = m.end() + 1;
                        continue;
                    }
                    spans.push((m.start() - start, m.end() - start));
                    last_end = Some(m.end());
                    at = if m.is_empty() { m.end() + 1 } else { m.end() };
                }
            }
        }
    }
    spans
}

/// Successive leftmost-first, non-overlapping matches within a line's
/// content. Under CRLF a match cannot contain `\r`.
pub fn content_spans(orc: &Oracle, content: &[u8]) -> Vec<(usize, usize)> {
    let mut spans = vec![];
    let mut segs: Vec<(usize, usize)> = vec![];
    if orc.term == Term::Crlf {
        let mut s = 0;
        for (i, &b) in content.iter().enumerate() {
            if b == b'\r' {
                segs.push((s, i));
                s = i + 1;
            }
        }
        segs.push((s, content.len()));
    } else {
        segs.push((0, content.len()));
    }
    for (s, e) in segs {
        let mut at = s;
        let mut last_end: Option<usize> = None;
        while at <= e {
            let input = Input::new(content).span(at..e);
            match orc.re.search(&input) {
                None => break,
                Some(m) => {
                    // An empty match adjacent to the previous match is
                    // skipped, as regex iterators do.
                    if m.is_empty() && last_end == Some(m.start()) {
                        at = m.end() + 1;
                        continue;
                    }
                    spans.push((m.start(), m.end()));
                    last_end = Some(m.end());
                    at = if m.is_empty() { m.end() + 1 } else { m.end() };
                }
            }
        }
    }
    spans
}

fn has_bom(input: &[u8]) -> bool {
    input.starts_with(b"\xef\xbb\xbf")
        || input.starts_with(b"\xff\xfe")
        || input.starts_with(b"\xfe\xff")
}

/// `rgmon clicases c01 --seed S --n N`: generated C01 cases with the
/// oracle's verdict per line, as a JSON array on stdout.
pub fn clicases(kind: &str, seed: u64, n: usize) -> Value {
    let corpus = patgen::load_corpus();
    let mut out = vec![];
    let mut i = 0u64;
    while out.len() < n && i < (n as u64) * 20 {
        let mut rng = Rng::new(rng::mix(&[seed, 0xC11, i]));
        i += 1;
        match kind {
            "c01" => {
                let case = match c01::gen_case(&mut rng, &corpus) {
                    Some(c) => c,
                    None => continue,
                };
                if case.input.is_empty() || has_bom(&case.input) {
                    continue;
                }
                // argv cannot carry NUL; rg rejects patterns it cannot
                // compile with status 2, which the CLI monitor expects too.
                if case.patterns.iter().any(|p| p.contains('\0')) {
                    continue;
                }
                let orc = match Oracle::build(&case.patterns, &case.flags) {
                    Ok(o) => o,
                    Err(_) => continue,
                };
                let accepted = crate::oracle::build_matcher(
                    &case.patterns,
                    &case.flags,
                )
                .is_ok();
                let uw = crate::oracle::matcher_builder(&case.flags)
                    .verif_describe(&case.patterns)
                    .map(|(h, _)| {
                        h.properties().look_set().contains_word_unicode()
                    })
                    .unwrap_or(false);
                let lines_json =
                    line_reference_q(&orc, &case.input, case.flags.term, uw);
                out.push(json!({
                    "patterns": case.patterns,
                    "flags": case.flags.to_json(),
                    "args": case.flags.cli_args(),
                    "input": esc(&case.input),
                    "accepted_by_library": accepted,
                    "lines": lines_json,
                }));
            }
            "c03" => {
                // context cases for the C03 / C16 CLI legs: the grep model's
                // expected stream for `rg -a -n -b --no-heading`.
                let mut case = crate::ctxgen::gen_case(&mut rng);
                if case.cfg.term == Term::Nul {
                    continue;
                }
                if case.input.len() > 20_000 {
                    case.input.truncate(20_000);
                }
                if has_bom(&case.input) {
                    continue;
                }
                let flags = case.flags(false);
                let orc = match Oracle::build(&[case.pattern.clone()], &flags) {
                    Ok(o) => o,
                    Err(_) => continue,
                };
                if orc.engine_disagrees(&case.input) {
                    continue;
                }
                let lines = split_lines(&case.input, case.cfg.term);
                let mask: Vec<bool> = lines
                    .iter()
                    .map(|l| orc.line_matches(&case.input[l.start..l.content_end]))
                    .collect();
                let model = crate::model::grep_model(
                    &case.input,
                    &lines,
                    &mask,
                    &case.cfg.grep_cfg(),
                );
                let mut args: Vec<String> = vec![];
                let c = &case.cfg;
                if c.passthru {
                    args.push("--passthru".into());
                } else {
                    if c.after > 0 {
                        args.push(format!("-A{}", c.after));
                    }
                    if c.before > 0 {
                        args.push(format!("-B{}", c.before));
                    }
                }
                if c.invert {
                    args.push("-v".into());
                }
                if c.term == Term::Crlf {
                    args.push("--crlf".into());
                }
                if c.stop_on_nonmatch {
                    args.push("--stop-on-nonmatch".into());
                }
                args.push(if c.line_number { "-n".into() } else { "-N".into() });
                let evs: Vec<Value> = model
                    .iter()
                    .filter_map(|e| match e {
                        crate::model::Expect::Exact(crate::sinklog::Event::Matched { bytes, off, line }) => Some(json!({"k": "M", "line": line, "off": off, "bytes": esc(bytes)})),
                        crate::model::Expect::Exact(crate::sinklog::Event::Context { bytes, off, line, .. }) => Some(json!({"k": "C", "line": line, "off": off, "bytes": esc(bytes)})),
                        crate::model::Expect::ContextEither { bytes, off, line } => Some(json!({"k": "C", "line": line, "off": off, "bytes": esc(bytes)})),
                        crate::model::Expect::Exact(crate::sinklog::Event::Break) => Some(json!({"k": "break"})),
                        _ => None,
                    })
                    .collect();
                out.push(json!({
                    "pattern": case.pattern,
                    "args": args,
                    "after": if c.passthru { 0 } else { c.after },
                    "before": if c.passthru { 0 } else { c.before },
                    "passthru": c.passthru,
                    "invert": c.invert,
                    "line_number": c.line_number,
                    "stop_on_nonmatch": c.stop_on_nonmatch,
                    "term": c.term.name(),
                    "input": esc(&case.input),
                    "nlines": lines.len(),
                    "model": evs,
                }));
            }
            "c09" => {
                // like c01 but LF/CRLF only, with per-line match spans and
                // (for a third of the cases) a -U variant with whole-input
                // matches
                let mut case = match c01::gen_case(&mut rng, &corpus) {
                    Some(c) => c,
                    None => continue,
                };
                if case.flags.term == Term::Nul || case.input.is_empty() || has_bom(&case.input) {
                    continue;
                }
                if case.patterns.iter().any(|p| p.contains('\0')) {
                    continue;
                }
                if case.input.len() > 30_000 {
                    case.input.truncate(30_000);
                }
                if crate::oracle::build_matcher(&case.patterns, &case.flags).is_err() {
                    continue;
                }
                let orc = match Oracle::build(&case.patterns, &case.flags) {
                    Ok(o) => o,
                    Err(_) => continue,
                };
                if orc.engine_disagrees(&case.input) {
                    continue;
                }
                let uw = crate::oracle::matcher_builder(&case.flags)
                    .verif_describe(&case.patterns)
                    .map(|(h, _)| h.properties().look_set().contains_word_unicode())
                    .unwrap_or(false);
                let lines_json = line_reference_q(&orc, &case.input, case.flags.term, uw);
                let valid_utf8 = std::str::from_utf8(&case.input).is_ok();
                out.push(json!({
                    "patterns": case.patterns,
                    "flags": case.flags.to_json(),
                    "args": case.flags.cli_args(),
                    "input": esc(&case.input),
                    "valid_utf8": valid_utf8,
                    "lines": lines_json,
                }));
            }
            "c19" => {
                if let Some(v) = crate::c19::gen_case(&mut rng) {
                    out.push(v);
                }
            }
            "c13" => {
                let case = match crate::c13::gen_case(&mut rng, &corpus) {
                    Some(c) => c,
                    None => continue,
                };
                if case.input.is_empty() || has_bom(&case.input) || case.pattern.contains('\0') {
                    continue;
                }
                if crate::oracle::build_matcher(&[case.pattern.clone()], &case.flags).is_err() {
                    continue;
                }
                let orc = match Oracle::build(&[case.pattern.clone()], &case.flags) {
                    Ok(o) => o,
                    Err(_) => continue,
                };
                if orc.engine_disagrees(&case.input)
                    || orc.word_boundary_context_dependent(
                        &[case.pattern.clone()],
                        &case.flags,
                        &case.input,
                    )
                {
                    continue;
                }
                let lines = split_lines(&case.input, case.flags.term);
                let (covered, nm, ambiguous) = crate::c13::covered_lines(&orc, &case.input, &lines);
                if ambiguous {
                    continue;
                }
                out.push(json!({
                    "pattern": case.pattern,
                    "args": case.flags.cli_args(),
                    "input": esc(&case.input),
                    "nlines": lines.len(),
                    "matches": nm,
                    "match_spans": crate::c13::whole_input_matches(&orc, &case.input)
                        .iter().map(|(s, e)| json!([s, e])).collect::<Vec<_>>(),
                    "covered": covered.iter().enumerate().filter(|(_, &c)| c).map(|(i, _)| i + 1).collect::<Vec<_>>(),
                }));
            }
            _ => break,
        }
    }
    Value::Array(out)
}

/// `rgmon ref`: stdin = JSON array of jobs {patterns, flags, input}; stdout =
/// JSON array of {ok, lines} (or {ok:false, err}).
pub fn reference(jobs: &Value) -> Value {
    let mut out = vec![];
    for job in jobs.as_array().map(|a| a.as_slice()).unwrap_or(&[]) {
        let patterns: Vec<String> = job["patterns"]
            .as_array()
            .map(|a| {
                a.iter().map(|x| x.as_str().unwrap_or("").to_string()).collect()
            })
            .unwrap_or_default();
        let flags = PatFlags::from_json(&job["flags"]);
        let input = unesc(job["input"].as_str().unwrap_or(""));
        match Oracle::build(&patterns, &flags) {
            Err(e) => out.push(json!({"ok": false, "err": e})),
            Ok(orc) => out.push(json!({
                "ok": true,
                "accepted_by_library":
                    crate::oracle::build_matcher(&patterns, &flags).is_ok(),
                "lines": line_reference(&orc, &input, flags.term),
            })),
        }
    }
    Value::Array(out)
}
