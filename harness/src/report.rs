//! Run reports: what the monitors observed, and violations with witnesses.
//! The Python driver (`/verif/check`) turns a report into the evidence file,
//! the replay files and the VIOLATION / KNOWN-FINDING lines.

use std::collections::{BTreeMap, HashSet};

use serde_json::{json, Value};

#[derive(Clone, Debug)]
pub struct Violation {
    /// Stable classification computed by the checker from the witness.
    pub signature: String,
    /// One-line human description.
    pub what: String,
    /// The complete case, enough to replay it.
    pub replay: Value,
}

#[derive(Clone, Debug, Default)]
pub struct Report {
    pub evaluations: u64,
    pub distinct: HashSet<u64>,
    pub counters: BTreeMap<String, u64>,
    pub samples: Vec<Value>,
    pub violations: Vec<Violation>,
    pub violation_counts: BTreeMap<String, u64>,
    pub inconclusive: u64,
    pub notes: Vec<String>,
    /// include the distinct-case hashes in the JSON (child processes whose
    /// reports are merged by a parent)
    pub export_hashes: bool,
}

pub const MAX_SAMPLES: usize = 5;
pub const MAX_VIOL_PER_SIG: u64 = 2;
pub const MAX_VIOLATIONS: usize = 60;

impl Report {
    pub fn new() -> Report {
        Report::default()
    }

    pub fn count(&mut self, key: &str) {
        *self.counters.entry(key.to_string()).or_insert(0) += 1;
    }

    pub fn add(&mut self, key: &str, n: u64) {
        *self.counters.entry(key.to_string()).or_insert(0) += n;
    }

    pub fn max(&mut self, key: &str, n: u64) {
        let e = self.counters.entry(key.to_string()).or_insert(0);
        if n > *e {
            *e = n;
        }
    }

    pub fn nontrivial(&mut self, hash: u64) {
        self.distinct.insert(hash);
    }

    pub fn sample(&mut self, v: impl FnOnce() -> Value) {
        if self.samples.len() < MAX_SAMPLES {
            self.samples.push(v());
        }
    }

    pub fn violation(
        &mut self,
        signature: &str,
        what: impl Into<String>,
        replay: impl FnOnce() -> Value,
    ) {
        // a disagreement on a (pattern, input) on which the regex library
        // contradicts itself is that library's defect, recorded once under
        // C01 (known findings); here it gives no verdict
        if engine_probe_says_inconsistent() {
            self.count("skipped_regex_engine_disagrees_with_itself");
            return;
        }
        let c =
            self.violation_counts.entry(signature.to_string()).or_insert(0);
        *c += 1;
        if *c <= MAX_VIOL_PER_SIG && self.violations.len() < MAX_VIOLATIONS {
            self.violations.push(Violation {
                signature: signature.to_string(),
                what: what.into(),
                replay: replay(),
            });
        }
    }

    pub fn merge(&mut self, other: Report) {
        self.evaluations += other.evaluations;
        self.distinct.extend(other.distinct);
        for (k, v) in other.counters {
            if k.starts_with("max_") {
                let e = self.counters.entry(k).or_insert(0);
                if v > *e {
                    *e = v;
                }
            } else {
                *self.counters.entry(k).or_insert(0) += v;
            }
        }
        for s in other.samples {
            if self.samples.len() < MAX_SAMPLES {
                self.samples.push(s);
            }
        }
        for (k, v) in other.violation_counts {
            *self.violation_counts.entry(k).or_insert(0) += v;
        }
        let mut per_sig: BTreeMap<String, u64> = BTreeMap::new();
        for v in &self.violations {
            *per_sig.entry(v.signature.clone()).or_insert(0) += 1;
        }
        for v in other.violations {
            let c = per_sig.entry(v.signature.clone()).or_insert(0);
            if *c < MAX_VIOL_PER_SIG && self.violations.len() < MAX_VIOLATIONS
            {
                *c += 1;
                self.violations.push(v);
            }
        }
        self.inconclusive += other.inconclusive;
        for n in other.notes {
            if !self.notes.contains(&n) && self.notes.len() < 40 {
                self.notes.push(n);
            }
        }
    }

    pub fn to_json(&self) -> Value {
        let hashes: Vec<u64> = if self.export_hashes {
            self.distinct.iter().copied().collect()
        } else {
            vec![]
        };
        json!({
            "distinct_hashes": hashes,
            "evaluations": self.evaluations,
            "distinct_nontrivial": self.distinct.len(),
            "counters": self.counters,
            "samples": self.samples,
            "violation_counts": self.violation_counts,
            "violations": self.violations.iter().map(|v| json!({
                "signature": v.signature,
                "what": v.what,
                "replay": v.replay,
            })).collect::<Vec<_>>(),
            "inconclusive": self.inconclusive,
            "notes": self.notes,
        })
    }
}

/// Bytes to a JSON-friendly, human readable and lossless form: a Rust-like
/// escaped string ("\\xNN" for non printable bytes).
pub fn esc(bytes: &[u8]) -> String {
    let mut s = String::with_capacity(bytes.len() + 8);
    for &b in bytes {
        match b {
            b'\\' => s.push_str("\\\\"),
            b'\n' => s.push_str("\\n"),
            b'\r' => s.push_str("\\r"),
            b'\t' => s.push_str("\\t"),
            0x20..=0x7e => s.push(b as char),
            _ => s.push_str(&format!("\\x{:02x}", b)),
        }
    }
    s
}

/// Inverse of `esc`.
pub fn unesc(s: &str) -> Vec<u8> {
    let b = s.as_bytes();
    let mut out = Vec::with_capacity(b.len());
    let mut i = 0;
    while i < b.len() {
        if b[i] == b'\\' && i + 1 < b.len() {
            match b[i + 1] {
                b'\\' => {
                    out.push(b'\\');
                    i += 2;
                }
                b'n' => {
                    out.push(b'\n');
                    i += 2;
                }
                b'r' => {
                    out.push(b'\r');
                    i += 2;
                }
                b't' => {
                    out.push(b'\t');
                    i += 2;
                }
                b'x' if i + 4 <= b.len() => {
                    let h = std::str::from_utf8(&b[i + 2..i + 4]).unwrap();
                    out.push(u8::from_str_radix(h, 16).unwrap());
                    i += 4;
                }
                _ => {
                    out.push(b[i]);
                    i += 1;
                }
            }
        } else {
            out.push(b[i]);
            i += 1;
        }
    }
    out
}

/// Shorten long byte strings for samples (never for replays).
pub fn esc_short(bytes: &[u8], max: usize) -> String {
    if bytes.len() <= max {
        esc(bytes)
    } else {
        format!("{}...(+{} bytes)", esc(&bytes[..max]), bytes.len() - max)
    }
}

thread_local! {
    static ENGINE_PROBE: std::cell::RefCell<Option<(Vec<String>, crate::oracle::PatFlags, Vec<Vec<u8>>, Option<bool>)>> =
        std::cell::RefCell::new(None);
}

/// Names the case being judged, for `Report::violation`: the patterns, their
/// flags and the inputs searched. Evaluated only if a violation is about to be
/// recorded: is the optimised regex engine at odds with the NFA simulation of
/// the same library on one of these inputs (`Oracle::engine_disagrees`)?
pub fn set_engine_probe(patterns: &[String], flags: &crate::oracle::PatFlags, inputs: &[&[u8]]) {
    ENGINE_PROBE.with(|p| {
        *p.borrow_mut() =
            Some((patterns.to_vec(), flags.clone(), inputs.iter().map(|i| i.to_vec()).collect(), None))
    });
}

pub fn clear_engine_probe() {
    ENGINE_PROBE.with(|p| *p.borrow_mut() = None);
}

fn engine_probe_says_inconsistent() -> bool {
    ENGINE_PROBE.with(|p| {
        let mut p = p.borrow_mut();
        let Some((patterns, flags, inputs, memo)) = p.as_mut() else { return false };
        if let Some(v) = memo {
            return *v;
        }
        let v = match crate::oracle::Oracle::build(patterns, flags) {
            Ok(orc) => inputs.iter().any(|i| orc.engine_disagrees(i)),
            Err(_) => false,
        };
        *memo = Some(v);
        v
    })
}
