//! C16 — stopping early or failing mid-stream yields a prefix of the full
//! results. Fault enumeration: for every generated case the sink is made to
//! refuse (`Ok(false)`) or fail (`Err`) at every event index of the
//! uninterrupted log, and the reader to fail or be interrupted at every read
//! index.

use std::io;

use serde_json::{json, Value};

use crate::{
    c02::{LegSpec, CAPS},
    ctxgen::{self, CtxCase},
    oracle,
    report::{esc_short, Report},
    rng::{fnv_parts, Rng},
    run::{followup_input, run_leg, run_leg_then, Bin, Leg, Outcome, SearchCfg},
    sinklog::{log_to_json, Event, LogError, ReadOp, Stop},
    Ctx,
};

/// Patterns that can match the line terminator: with a matcher built without
/// a line terminator and multi-line mode requested these drive the
/// multi-line strategy.
pub const ML_PATTERNS: &[&str] = &[
    "m[xyz 0.]*\\n?",
    "m\\n|m",
    "\\nm|^m",
    "m(?s:.)",
    "m[^q]*?\\n",
    "m(?:\\r?\\n)?",
    "m\\s",
];

#[derive(Clone, Debug)]
pub struct Case16 {
    pub base: CtxCase,
    /// use the multi-line strategy (pattern from ML_PATTERNS)
    pub multiline: bool,
}

pub fn gen_case(rng: &mut Rng) -> Case16 {
    let mut base = ctxgen::gen_case(rng);
    // keep logs short enough to enumerate every stopping point
    if base.input.len() > 6000 {
        base.input.truncate(6000);
    }
    if cfg!(miri) && base.input.len() > 120 {
        base.input.truncate(120);
    }
    let multiline = rng.chance(1, 3);
    if multiline {
        base.pattern = rng.pick(ML_PATTERNS).to_string();
        base.cfg.stop_on_nonmatch = false;
        if base.cfg.term == crate::model::Term::Nul {
            base.cfg.term = crate::model::Term::Lf;
            for b in base.input.iter_mut() {
                if *b == 0 {
                    *b = b'\n';
                }
            }
        }
    }
    // binary detection, to obtain binary_data events
    if base.cfg.term != crate::model::Term::Nul && rng.chance(1, 4) {
        base.cfg.binary = if rng.bool() { Bin::Quit } else { Bin::Convert };
        if !base.input.is_empty() {
            for _ in 0..rng.range(1, 2) {
                let i = rng.below(base.input.len());
                base.input[i] = 0;
            }
        }
    }
    Case16 { base, multiline }
}

thread_local! {
    /// the matcher of the case being enumerated (hundreds of runs per case
    /// share it; compiling it anew each time dominates under Miri)
    static MATCHER: std::cell::RefCell<Option<(String, bool, crate::model::Term, grep_regex::RegexMatcher)>> =
        std::cell::RefCell::new(None);
}

fn run_one_mode(
    case: &Case16,
    leg: &Leg,
    stop: Option<(usize, Stop)>,
    mode: After,
) -> Result<(Outcome, Option<Outcome>), String> {
    let mut flags = case.base.flags(case.multiline);
    if case.multiline {
        flags.dotall = false;
    }
    let key = (case.base.pattern.clone(), case.multiline, case.base.cfg.term);
    let m = MATCHER.with(|c| -> Result<grep_regex::RegexMatcher, String> {
        let mut c = c.borrow_mut();
        if let Some((p, ml, t, m)) = c.as_ref() {
            if *p == key.0 && *ml == key.1 && *t == key.2 {
                return Ok(m.clone());
            }
        }
        let m = oracle::build_matcher(&[case.base.pattern.clone()], &flags)?;
        *c = Some((key.0.clone(), key.1, key.2, m.clone()));
        Ok(m)
    })?;
    let mut cfg: SearchCfg = case.base.cfg.clone();
    cfg.multi_line = case.multiline;
    match mode {
        After::Nothing => Ok((run_leg(&m, &cfg, leg, &case.base.input, stop), None)),
        After::SearchAgain => {
            let (a, b) = run_leg_then(&m, &cfg, leg, &case.base.input, stop);
            Ok((a, Some(b)))
        }
        After::OnlyTheSecond => {
            // the second input alone, through a searcher without a past
            let next = followup_input(cfg.term);
            let alone = Leg::Reader { cap: None, script: vec![], tail: 11, cycle: false };
            Ok((run_leg(&m, &cfg, &alone, &next, None), None))
        }
    }
}

/// What happens to the searcher after the judged search.
#[derive(Clone, Copy, PartialEq)]
enum After {
    Nothing,
    /// it searches `followup_input` next, as a worker goes on to its next file
    SearchAgain,
    OnlyTheSecond,
}

fn run_one(case: &Case16, leg: &Leg, stop: Option<(usize, Stop)>) -> Result<Outcome, String> {
    run_one_mode(case, leg, stop, After::Nothing).map(|x| x.0)
}

/// A search that was stopped or failed must leave nothing behind: the next
/// search by the same searcher delivers what a fresh searcher delivers.
fn check_followup(
    rep: &mut Report,
    case: &Case16,
    leg: &Leg,
    sigbase: &str,
    fault: &Value,
    alone: &Outcome,
    second: &Outcome,
) {
    rep.count("followup_searches_after_an_interrupted_one");
    if second.log != alone.log || second.result != alone.result {
        let i = second.log.iter().zip(alone.log.iter()).position(|(a, b)| a != b).unwrap_or(second.log.len().min(alone.log.len()));
        viol(rep, case, leg, format!("{}:next-search-sees-the-interrupted-one", sigbase),
             format!("the next search by the same searcher differs from a fresh searcher's at event {}: fresh {} / reused {} (results {:?} / {:?})",
                     i,
                     alone.log.get(i).map_or("-".into(), |e| e.to_json().to_string()),
                     second.log.get(i).map_or("-".into(), |e| e.to_json().to_string()),
                     alone.result, second.result),
             fault.clone(), &alone.log, &second.log);
    }
}

fn is_prefix(p: &[Event], full: &[Event]) -> bool {
    p.len() <= full.len() && p.iter().zip(full.iter()).all(|(a, b)| a == b)
}

pub fn gen_legs(rng: &mut Rng) -> Vec<Leg> {
    vec![
        Leg::Slice,
        Leg::Reader {
            cap: Some(rng.pick(CAPS)),
            script: vec![],
            tail: rng.range(1, 16),
            cycle: false,
        },
        if rng.bool() {
            Leg::File { mmap: rng.bool() }
        } else {
            Leg::Reader { cap: None, script: vec![], tail: 1 << 16, cycle: false }
        },
    ]
}

fn viol(
    rep: &mut Report,
    case: &Case16,
    leg: &Leg,
    sig: String,
    what: String,
    extra: Value,
    full: &[Event],
    got: &[Event],
) {
    rep.violation(&sig, what, || {
        json!({
            "case": case.base.to_json(), "multiline": case.multiline,
            "leg": leg.to_json(), "fault": extra,
            "full_log": log_to_json(full), "got_log": log_to_json(got),
        })
    });
}

pub fn check_case(
    case: &Case16,
    legs: &[Leg],
    max_points: usize,
    rng: &mut Rng,
    rep: &mut Report,
) {
    let strat = if case.multiline { "ml" } else { "line" };
    {
        let mut flags = case.base.flags(case.multiline);
        if case.multiline {
            flags.dotall = false;
        }
        let next = followup_input(case.base.cfg.term);
        crate::report::set_engine_probe(&[case.base.pattern.clone()], &flags, &[&case.base.input, &next]);
    }
    // what a searcher without a past delivers for the text searched second
    let alone: Option<Outcome> = run_one_mode(case, &Leg::Slice, None, After::OnlyTheSecond)
        .ok()
        .map(|x| x.0)
        .filter(|o| o.result.is_ok());
    for leg in legs {
        rep.evaluations += 1;
        let full = match run_one(case, leg, None) {
            Ok(o) => o,
            Err(_) => {
                rep.count("matcher_build_failed");
                return;
            }
        };
        if full.result.is_err() {
            rep.count("uninterrupted_run_failed");
            continue;
        }
        let n = full.log.len();
        rep.add("uninterrupted_events", n as u64);
        if n > 3 {
            rep.nontrivial(fnv_parts(&[
                case.base.pattern.as_bytes(),
                format!("{:?}{}", case.base.cfg, case.multiline).as_bytes(),
                &case.base.input,
                leg.short().as_bytes(),
            ]));
        }
        // ---- sink stops at every event index
        let mut ks: Vec<usize> = (0..n).collect();
        if ks.len() > max_points {
            rng.shuffle(&mut ks);
            ks.truncate(max_points);
            // always include the boundary points
            ks.push(0);
            ks.push(n - 1);
            ks.push(n.saturating_sub(2));
            ks.sort();
            ks.dedup();
        } else {
            rep.count("legs_with_every_stop_index_enumerated");
        }
        for &k in &ks {
            let evk = full.log[k].kind_name();
            for how in [Stop::False, Stop::Err] {
                let again = if k % 2 == 0 && alone.is_some() { After::SearchAgain } else { After::Nothing };
                let (out, second) = match run_one_mode(case, leg, Some((k, how)), again) {
                    Ok(o) => o,
                    Err(_) => continue,
                };
                rep.count("interrupted_runs");
                rep.count(&format!("stop_at_{}", evk));
                let hname = if how == Stop::False { "false" } else { "err" };
                let fault = json!({"sink_stop_at": k, "how": hname, "event": full.log[k].to_json()});
                let sigbase = format!("C16:{}:{}:sink-{}@{}", strat, leg.short(), hname, evk);
                let is_finish = matches!(full.log[k], Event::Finish { .. });
                if let (Some(alone), Some(second)) = (alone.as_ref(), second.as_ref()) {
                    check_followup(rep, case, leg, &sigbase, &fault, alone, second);
                }
                match how {
                    Stop::Err => {
                        if out.result != Err(LogError::Injected) {
                            viol(rep, case, leg, format!("{}:error-not-returned", sigbase),
                                 format!("sink error at event {} ({}) was not returned: {:?}", k, evk, out.result),
                                 fault.clone(), &full.log, &out.log);
                        }
                        if out.log.len() != k + 1 || !is_prefix(&out.log, &full.log) {
                            viol(rep, case, leg, format!("{}:events-after-error", sigbase),
                                 format!("after sink error at event {} ({}) the log has {} events (expected {}); next: {}",
                                         k, evk, out.log.len(), k + 1,
                                         out.log.get(k + 1).map_or("-".into(), |e| e.to_json().to_string())),
                                 fault.clone(), &full.log, &out.log);
                        }
                    }
                    Stop::False => {
                        if is_finish {
                            // finish cannot refuse
                            if out.log != full.log || out.result.is_err() {
                                viol(rep, case, leg, format!("{}:finish", sigbase),
                                     "stop at finish changed the log".into(),
                                     fault.clone(), &full.log, &out.log);
                            }
                            continue;
                        }
                        if out.result.is_err() {
                            viol(rep, case, leg, format!("{}:unexpected-error", sigbase),
                                 format!("stop request at event {} produced error {:?}", k, out.result),
                                 fault.clone(), &full.log, &out.log);
                            continue;
                        }
                        let ok_shape = out.log.len() == k + 2
                            && is_prefix(&out.log[..k + 1], &full.log)
                            && matches!(out.log[k + 1], Event::Finish { .. });
                        if !ok_shape {
                            let next = out.log.get(k + 1).map_or("none", |e| e.kind_name());
                            viol(rep, case, leg, format!("{}:then-{}", sigbase, next),
                                 format!("after stop request at event {} ({}) delivered: {} (log len {}, expected {} + finish)",
                                         k, evk,
                                         out.log.get(k + 1).map_or("-".into(), |e| e.to_json().to_string()),
                                         out.log.len(), k + 1),
                                 fault.clone(), &full.log, &out.log);
                        }
                    }
                }
            }
        }
        // ---- reader faults at every read index
        if let Leg::Reader { cap, tail, .. } = leg {
            let reads = full.read_calls;
            rep.add("uninterrupted_reads", reads as u64);
            let mut js: Vec<usize> = (0..reads).collect();
            if js.len() > max_points {
                rng.shuffle(&mut js);
                js.truncate(max_points);
                js.push(0);
                js.push(reads - 1);
                js.sort();
                js.dedup();
            } else {
                rep.count("legs_with_every_read_index_enumerated");
            }
            for &j in &js {
                for op in [ReadOp::Fail, ReadOp::Interrupted] {
                    let mut script = vec![ReadOp::Chunk(*tail); j];
                    script.push(op);
                    let fleg = Leg::Reader {
                        cap: *cap,
                        script,
                        tail: *tail,
                        cycle: false,
                    };
                    let again = if j % 2 == 0 && alone.is_some() { After::SearchAgain } else { After::Nothing };
                    let (out, second) = match run_one_mode(case, &fleg, None, again) {
                        Ok(o) => o,
                        Err(_) => continue,
                    };
                    rep.count("faulted_reads");
                    let oname = if op == ReadOp::Fail { "fail" } else { "interrupted" };
                    let fault = json!({"read_index": j, "op": oname});
                    let sigbase = format!("C16:{}:reader:read-{}", strat, oname);
                    if let (Some(alone), Some(second)) = (alone.as_ref(), second.as_ref()) {
                        check_followup(rep, case, &fleg, &sigbase, &fault, alone, second);
                    }
                    let has_finish = out.log.iter().any(|e| matches!(e, Event::Finish { .. }));
                    match (&out.result, op) {
                        (Ok(()), ReadOp::Interrupted) => {
                            // retried: must equal the uninterrupted log
                            rep.count("interrupted_read_retried");
                            if out.log != full.log {
                                viol(rep, case, &fleg, format!("{}:retried-log-differs", sigbase),
                                     format!("interrupted read {} was retried but the log differs", j),
                                     fault, &full.log, &out.log);
                            }
                        }
                        (Ok(()), _) => {
                            viol(rep, case, &fleg, format!("{}:error-swallowed", sigbase),
                                 format!("read error at read {} was not returned", j),
                                 fault, &full.log, &out.log);
                        }
                        (Err(e), _) => {
                            let want_kind = if op == ReadOp::Fail { io::ErrorKind::Other } else { io::ErrorKind::Interrupted };
                            let right = matches!(e, LogError::Io(k, _) if *k == want_kind);
                            if !right {
                                viol(rep, case, &fleg, format!("{}:wrong-error", sigbase),
                                     format!("read error at read {} surfaced as {:?}", j, e),
                                     fault.clone(), &full.log, &out.log);
                            }
                            if has_finish {
                                viol(rep, case, &fleg, format!("{}:finish-after-error", sigbase),
                                     format!("finish delivered although read {} failed", j),
                                     fault.clone(), &full.log, &out.log);
                            } else if !is_prefix(&out.log, &full.log) {
                                viol(rep, case, &fleg, format!("{}:not-a-prefix", sigbase),
                                     format!("events delivered before read {} failed are not a prefix of the full log", j),
                                     fault, &full.log, &out.log);
                            }
                        }
                    }
                }
            }
        }
    }
    rep.sample(|| {
        json!({
            "pattern": case.base.pattern, "multiline": case.multiline,
            "cfg": case.base.cfg.to_json(),
            "input": esc_short(&case.base.input, 80),
        })
    });
}

pub fn run(ctx: &Ctx) -> Report {
    let n = ctx.cases(2500, 80_000);
    let max_points = if cfg!(miri) { 4 } else if ctx.is_thorough() { 400 } else { 40 };
    crate::par_cases(ctx, 16, n, |rng, _i, rep| {
        let case = gen_case(rng);
        let legs = gen_legs(rng);
        check_case(&case, &legs, max_points, rng, rep);
    })
}

pub fn replay(v: &Value) -> Report {
    let mut rep = Report::new();
    let case = Case16 {
        base: CtxCase::from_json(&v["case"]),
        multiline: v["multiline"].as_bool().unwrap_or(false),
    };
    let mut leg = Leg::from_json(&v["leg"]);
    // fault legs carry the failing script; replay the clean leg and let the
    // enumeration find the fault again
    if let Leg::Reader { cap, tail, .. } = &leg {
        leg = Leg::Reader { cap: *cap, script: vec![], tail: *tail, cycle: false };
    }
    let mut rng = Rng::new(1);
    check_case(&case, &[leg], 100_000, &mut rng, &mut rep);
    rep
}

#[allow(dead_code)]
fn _unused(_: LegSpec) {}
