//! Generator shared by C02, C03, C14 and C16: inputs whose match mask is
//! chosen directly (as gap patterns relative to the context sizes) and
//! realised with a trivial pattern, so that context windows merge, touch or
//! leave a one-line gap at every buffer alignment.

use grep_regex::RegexMatcher;
use serde_json::{json, Value};

use crate::{
    model::Term,
    oracle::{self, PatFlags},
    report::{esc, unesc},
    rng::Rng,
    run::{Bin, SearchCfg},
};

/// All of these select lines whose content starts with `m` on the generated
/// inputs (the marker occurs nowhere else); the last three in addition need
/// some content after the marker. Which lines match is always decided by
/// the oracle or by the reference leg, never assumed from the marker.
pub const PATTERNS: &[&str] = &[
    "m",
    "^m",
    "m[xyz 0.]*$",
    "[m]",
    "m|QQQ",
    "(?:m)x*",
    "\\bm",
    "m+",
    "(m)(x*)",
    "[k-n&&[^kln]]",
    // can match `\r` but not `\n`: under CRLF the answer must not depend on
    // whether multi-line mode was requested (the `\r` of a terminator is not
    // line content)
    "m[^\\n]",
    "m[^\\n]$",
    "m[xyz]*[^\\n0]$",
];

#[derive(Clone, Debug)]
pub struct CtxCase {
    pub pattern: String,
    pub cfg: SearchCfg,
    pub input: Vec<u8>,
}

impl CtxCase {
    /// `multiline`: build the matcher without a line terminator, the way
    /// `-U` does.
    pub fn flags(&self, multiline: bool) -> PatFlags {
        let mut f = PatFlags::plain(self.cfg.term);
        f.multiline = multiline;
        f
    }

    pub fn matcher(&self, multiline: bool) -> Result<RegexMatcher, String> {
        oracle::build_matcher(&[self.pattern.clone()], &self.flags(multiline))
    }

    pub fn to_json(&self) -> Value {
        json!({
            "pattern": self.pattern,
            "cfg": self.cfg.to_json(),
            "input": esc(&self.input),
        })
    }

    pub fn from_json(v: &Value) -> CtxCase {
        CtxCase {
            pattern: v["pattern"].as_str().unwrap().to_string(),
            cfg: SearchCfg::from_json(&v["cfg"]),
            input: unesc(v["input"].as_str().unwrap()),
        }
    }
}

pub fn gen_cfg(rng: &mut Rng) -> SearchCfg {
    let term = match rng.weighted(&[6, 2, 2]) {
        0 => Term::Lf,
        1 => Term::Crlf,
        _ => Term::Nul,
    };
    let small = [0usize, 0, 0, 1, 1, 2, 2, 3, 4, 5, 6];
    let (after, before) = match rng.below(4) {
        0 => (0, 0),
        _ => (rng.pick(&small), rng.pick(&small)),
    };
    SearchCfg {
        term,
        after,
        before,
        passthru: rng.chance(1, 10),
        invert: rng.chance(1, 4),
        line_number: !rng.chance(1, 5),
        stop_on_nonmatch: rng.chance(1, 7),
        multi_line: false,
        binary: Bin::None,
        encoding: None,
        bom_sniffing: true,
    }
}

/// A match mask built from gap patterns around A and B.
pub fn gen_mask(rng: &mut Rng, n: usize, a: usize, b: usize) -> Vec<bool> {
    let mut mask = vec![false; n];
    if n == 0 {
        return mask;
    }
    match rng.below(10) {
        0 => return mask,                  // no match at all
        1 => return vec![true; n],         // everything matches
        2 => {
            // uniformly random
            for m in mask.iter_mut() {
                *m = rng.bool();
            }
            return mask;
        }
        _ => {}
    }
    let ab = a + b;
    let gaps = [
        0,
        1,
        2,
        a,
        b,
        a + 1,
        b + 1,
        ab.saturating_sub(1),
        ab,
        ab + 1,
        ab + 2,
        2 * ab + 1,
    ];
    let mut i = if rng.bool() { 0 } else { rng.pick(&gaps) };
    while i < n {
        mask[i] = true;
        // runs of adjacent matches
        while rng.chance(1, 4) && i + 1 < n {
            i += 1;
            mask[i] = true;
        }
        i += 1 + rng.pick(&gaps);
    }
    if rng.chance(1, 3) {
        mask[n - 1] = true;
    }
    mask
}

const FILL: &[u8] = b"xyz 0.";

pub fn gen_input(rng: &mut Rng, term: Term, mask: &[bool], long_lines: bool) -> Vec<u8> {
    let mut out = Vec::new();
    let n = mask.len();
    // line length regime for this input
    let regime = rng.below(4);
    for (i, &m) in mask.iter().enumerate() {
        if m {
            out.push(b'm');
        }
        let len = match regime {
            0 => rng.below(4),
            1 => rng.below(20),
            2 => rng.below(70),
            _ => {
                if rng.chance(1, 6) {
                    0
                } else {
                    rng.below(30)
                }
            }
        };
        let len = if long_lines && rng.chance(1, 10) {
            rng.range(200, 5000)
        } else {
            len
        };
        // under a NUL terminator `\n` is ordinary line content
        let lf_inside = term == Term::Nul && regime != 1;
        for _ in 0..len {
            if lf_inside && rng.chance(1, 9) {
                out.push(b'\n');
            } else {
                out.push(rng.pick(FILL));
            }
        }
        if i + 1 == n && rng.chance(1, 4) {
            break;
        }
        match term {
            Term::Lf => out.push(b'\n'),
            Term::Nul => out.push(0),
            Term::Crlf => {
                if rng.chance(1, 8) {
                    out.push(b'\n')
                } else {
                    out.extend_from_slice(b"\r\n")
                }
            }
        }
    }
    out
}

pub fn gen_case(rng: &mut Rng) -> CtxCase {
    let cfg = gen_cfg(rng);
    let n = match rng.weighted(&[1, 12, 6, 1]) {
        0 => 0,
        1 => rng.range(1, 12),
        2 => rng.range(13, 60),
        _ => rng.range(61, 400),
    };
    // the interpreter is ~4 orders of magnitude slower: keep inputs tiny
    let n = if cfg!(miri) { n.min(8) } else { n };
    let mask = gen_mask(rng, n, cfg.after, cfg.before);
    let long_lines = rng.chance(1, 6) && !cfg!(miri);
    let input = gen_input(rng, cfg.term, &mask, long_lines);
    // "every byte but the terminator" is spelled per terminator
    let mut pattern = rng.pick(PATTERNS).to_string();
    if cfg.term == Term::Nul {
        pattern = pattern.replace("\\n", "\\x00");
    }
    CtxCase { pattern, cfg, input }
}
