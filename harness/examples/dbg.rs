use grep_matcher::Matcher;
use grep_regex::RegexMatcherBuilder;
fn main() {
    let pats = ["(?-u:\\W)\\B"];
    let mut b = RegexMatcherBuilder::new();
    b.multi_line(true).unicode(true).case_insensitive(true).word(true).line_terminator(Some(b'\n'));
    let m = b.build_many(&pats).unwrap();
    let (hir, lits) = b.verif_describe(&pats).unwrap();
    println!("hir: {}  lits: {:?}", hir, lits);
    for h in [&b"\xb3"[..], &b"\xb3\n"[..], &b"a\n\xb3\n"[..], &b"\xb3\nb"[..]] {
        println!("{:?}: is_match={:?} find={:?} cand={:?}", h, m.is_match(h), m.find(h), m.find_candidate_line(h));
    }
    let re = regex::bytes::RegexBuilder::new("(?i)(?m)\\b{start-half}(?:(?-u:\\W)\\B)\\b{end-half}").unicode(true).build().unwrap();
    for h in [&b"\xb3"[..], &b"\xb3\n"[..], &b"a\n\xb3\n"[..]] {
        println!("regex crate {:?}: {:?}", h, re.find(h).map(|m| (m.start(), m.end())));
    }
    let re2 = regex_automata::meta::Regex::builder().syntax(regex_automata::util::syntax::Config::new().multi_line(true).case_insensitive(true).utf8(false)).configure(regex_automata::meta::Config::new().utf8_empty(false)).build("\\b{start-half}(?:(?-u:\\W)\\B)\\b{end-half}").unwrap();
    for h in [&b"\xb3"[..], &b"\xb3\n"[..], &b"a\n\xb3\n"[..]] {
        println!("meta {:?}: {:?}", h, re2.find(h).map(|m| (m.start(), m.end())));
    }
    // individual engines
    let pv = regex_automata::nfa::thompson::pikevm::PikeVM::builder().syntax(regex_automata::util::syntax::Config::new().multi_line(true).case_insensitive(true).utf8(false)).thompson(regex_automata::nfa::thompson::Config::new().utf8(false)).build("\\b{start-half}(?:(?-u:\\W)\\B)\\b{end-half}").unwrap();
    let mut cache = pv.create_cache();
    for h in [&b"\xb3"[..], &b"\xb3\n"[..], &b"a\n\xb3\n"[..]] {
        println!("pikevm {:?}: {:?}", h, pv.find(&mut cache, h).map(|m| (m.start(), m.end())));
    }
}
