#!/bin/bash
# usage: tools/confirm_seed.sh <worktree> : confirms, in the scratch worktree, that the seeded change
# (currently applied there) passes the existing suite, and that SEEDED/demo.sh fails with it and passes without it.
set -u
W=$1
cd "$W" || exit 2
echo "== suite with change"
cargo test --workspace --no-fail-fast --offline > SEEDED/suite.log 2>&1
grep -E "^test result" SEEDED/suite.log | awk '{p+=$4; f+=$6} END {print "passed",p,"failed",f}'
echo "== demo with change"
bash SEEDED/demo.sh > SEEDED/demo_with.log 2>&1 < /dev/null; echo "exit $?"
git diff -- . ':!SEEDED' > /tmp/confirm_patch.$$.diff
git apply -R /tmp/confirm_patch.$$.diff || { echo "cannot revert"; exit 2; }
echo "== demo without change"
bash SEEDED/demo.sh > SEEDED/demo_without.log 2>&1 < /dev/null; echo "exit $?"
git apply /tmp/confirm_patch.$$.diff
rm -f /tmp/confirm_patch.$$.diff
