#!/bin/bash
# Regression of detection: applies every stored seeded change to /repo in turn, runs the quick tier of the
# check of its own property, undoes it, and writes seeded/SUMMARY.txt (one line per change).
# Must not run concurrently with anything else that builds from /repo.
cd /verif
out=seeded/SUMMARY.txt
# with arguments (directories under seeded/): only those, result in target/logs/reseed_some.txt
[ $# -gt 0 ] && out=target/logs/reseed_some.txt
: > $out.tmp
for d in ${@:-seeded/C*/}; do
  d=${d%/}/
  n=$(basename $d); c=${n%%-*}
  [ "$n" = "C13-multiline-take-limit-transcoded" ] && c=C17
  [ "$n" = "C03-printer-multiline-lines-split-on-lf" ] && c=C09
  [ "$n" = "C16-close-before-eof" ] && c=C18
  [ "$n" = "C13-multiline-file-take-limit-r5" ] && c=C17
  [ "$n" = "C03-multiline-reader-buffer-append-r5" ] && c=C09
  [ "$n" = "C02-utf8-label-raw-on-slice" ] && c=C17
  [ "$n" = "C09-encoding-none-strips-bom" ] && c=C17
  [ "$n" = "C10-sigpipe-required-for-early-close" ] && c=C18
  [ "$n" = "C10-eof-flag-set-on-close" ] && c=C18
  [ "$n" = "C03-multiline-reader-buffer-append-r6" ] && c=C02
  git -C /repo diff --quiet || { echo "/repo is dirty"; exit 2; }
  git -C /repo apply /verif/$d/patch.diff || { echo "$n patch-does-not-apply" >> $out.tmp; continue; }
  line=$(./check $c quick 2>&1 | grep -E "^$c quick|CHECK-BROKEN" | head -1)
  git -C /repo checkout -- .
  v=$(echo "$line" | sed -nE 's/.*violations=([0-9]+).*/\1/p')
  echo "$n checked-by=$c violations=${v:-?} $( [ "${v:-0}" != 0 ] && echo CAUGHT || echo MISSED )" >> $out.tmp
done
mv $out.tmp $out
grep -c CAUGHT $out; grep -v CAUGHT $out
