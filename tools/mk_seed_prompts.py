#!/usr/bin/env python3
"""Writes one prompt per property for a seeding sub-agent (only the property text
and the path of its own scratch worktree), as used for the two rounds recorded
in DESIGN.md 8.4.  usage: mk_seed_prompts.py <outdir> [round2|..|round7]"""
import json, sys
out = sys.argv[1]
tmpl = open('/verif/tools/seed_prompt.tmpl').read().replace('/tmp/seed/', out.rstrip('/') + '/')
extra = '''

ADDITIONAL CONSTRAINT (second, independent round): other engineers have already produced the most obvious change for this property. Choose a site that is NOT the most obvious one: for instance the mechanism listed LAST among the property's anchors, a file other than the first anchor file, a different crate that participates in the same guarantee, or a rarely used option that routes through different code (--null-data, --crlf, --multiline, --invert-match, --passthru, --only-matching, --replace, --max-columns, --json, --sort, --max-depth, --follow, --one-file-system, --no-ignore-*, --encoding, --search-zip, --pre-glob, --byte-offset, --vimgrep, --context-separator, --null, --files-without-match, --count-matches ...), whichever applies to this property. The violation should still be a clean semantic one (wrong result), not a crash.
''' if len(sys.argv) > 2 and sys.argv[2] == 'round2' else ''
extra3 = '''

ADDITIONAL CONSTRAINT (third, independent round): two earlier rounds have already produced the obvious and the second most obvious change for this property, and automated checkers that compare ripgrep against independent models on randomly generated inputs and flag combinations exist. Aim for a change such a checker is LEAST likely to stumble on: one that needs a boundary value (an internal buffer size such as 64 KiB or 8 KiB, a limit constant, an exact count), an interaction of two or three options that are rarely combined, an error or early-exit path, state carried over from one file / one search to the next (reused searcher, printer or matcher; second file of a run; second root), or a specific ordering of entries or events. It must still be a clean semantic violation of the property as stated (a wrong result a user could observe), not a crash, and the demo must show it deterministically.
'''
if len(sys.argv) > 2 and sys.argv[2] == 'round3':
    extra = extra3
extra4 = '''

ADDITIONAL CONSTRAINT (fourth, independent round): three earlier rounds produced changes in the most obvious places for this property (the functions named in its anchors). First split the property statement into its separate clauses (each 'and', each quantified dimension, each option it names) and pick the clause you judge LEAST likely to have been targeted yet; then put the change in code that is NOT named in the anchors but still decides that clause - for example a helper, a builder/configuration path (crates/core/flags/*, hiargs.rs, haystack.rs, a *Builder), a different printer (summary.rs, json.rs), searcher/lines.rs or line_buffer.rs, ignore/{types,overrides,gitignore,pathutil}.rs, globset/{glob,pathutil}.rs, cli/{decompress,pattern,escape}.rs, matcher/interpolate.rs. Keep it a clean semantic violation (a wrong result a user could observe) with a deterministic demo; automated differential checkers with random inputs and flag combinations exist, so prefer something that needs a specific combination or value.
'''
if len(sys.argv) > 2 and sys.argv[2] == 'round4':
    extra = extra4
extra5 = '''

ADDITIONAL CONSTRAINT (fifth, independent round): four earlier rounds have been through the functions named in the anchors, their helpers and the configuration paths, and automated differential checkers with random inputs and random combinations of the common options exist. This time start from the INPUT and OPTION space rather than from the code: pick a point of it that is legitimate for this property but unusual, and make a change that is wrong only there. Unusual inputs: an empty file, a file that is a single line without terminator, a line longer than 64 KiB or ending exactly at 65536 bytes, a character or code unit straddling the 8 KiB transcoding buffer, a path with spaces / non-UTF-8 bytes / a leading dash / trailing slash, a directory given twice, deep nesting, very many files in one directory, a file that is a FIFO or comes from stdin. Unusual options (use `rg --help` in the worktree for the full list): --max-columns with --max-columns-preview, --trim, --field-match-separator, --field-context-separator, --path-separator, --no-filename / --with-filename defaults for one file vs many, --sortr and --sort modified, --max-depth 0/1, -uuu, --one-file-system, --passthru with -v or -c, --stop-on-nonmatch, --line-buffered, --no-messages, --no-ignore-messages, --include-zero, --null with -c/-l, --iglob, --type-not with --type, --ignore-file with anchored patterns, --no-ignore-parent, -f FILE with empty lines, -e with an empty pattern, --dfa-size-limit / --regex-size-limit near their limit, --byte-offset with -o, --only-matching with context flags. Keep it a clean semantic violation of the property as stated (a wrong result a user could observe) with a deterministic demo.
'''
if len(sys.argv) > 2 and sys.argv[2] == 'round5':
    extra = extra5
extra6 = '''

ADDITIONAL CONSTRAINT (sixth, independent round): five earlier rounds have covered the anchor functions, their helpers, configuration paths, unusual inputs and rare command-line options, and automated differential checkers exist at two levels: over the rg binary and over the library crates (grep-searcher with recording sinks and scripted readers, grep-regex matchers, globset, the ignore walker). Think in terms of PAIRS: name two invocations (or two API calls, or the same call before and after something else happened) that this property says must agree, or an equation between their results, and make a change that breaks the equation only in a narrow situation - for example only for the second of two equal calls, only when a builder option is set to its non-default value AND another one too, only when an optional component is absent (no line numbers, no path, no stats, no heading, max_context = 0, empty glob set, zero patterns, zero roots), only at a count of exactly 0 or 1 or at a power of two, only for the last element, or only when two inputs are equal. Library-level configurations that the rg binary never uses are fair game as long as the property's quantifier includes them. Keep it a clean semantic violation of the property as stated with a deterministic demo (an rg command line, or a small Rust test / example using the crate's public API).
'''
if len(sys.argv) > 2 and sys.argv[2] == 'round6':
    extra = extra6
extra7 = '''

ADDITIONAL CONSTRAINT (seventh, independent round): six earlier rounds have covered the anchor functions, their helpers, configuration paths, unusual inputs, rare command-line options, buffer boundaries and pairs of equivalent invocations, and automated differential checkers (random inputs, flags, directory trees and thread schedules, compared against independent models) exist over the rg binary and over the library crates. Choose a change whose manifestation depends on STATE CARRIED ACROSS ITEMS handled by the same object or the same process - the second or later file searched by the same searcher / printer / worker thread, the second root path, the second pattern or glob added to a builder, a reused buffer, cache, matcher or decoder whose leftover content matters, a counter or flag that is not reset (or is reset too early) between items - or on the INTERACTION BETWEEN TWO CRATES (a value produced in one crate and interpreted in another: line terminators, byte offsets, path prefixes, match ranges, binary-detection results, error kinds), so that a check which looks at one input with a freshly built object does not see it. The first item processed must behave exactly as before. Keep it a clean semantic violation of the property as stated with a deterministic demo, and describe in meta.json "needs" the exact sequence of items required.
'''
if len(sys.argv) > 2 and sys.argv[2] == 'round7':
    extra = extra7
for line in open('/verif/properties.jsonl'):
    p = json.loads(line)
    open('%s/%s.prompt.txt' % (out, p['id']), 'w').write(
        tmpl.replace('@ID@', p['id']).replace('@PROPERTY@', json.dumps(p, indent=1)) + extra)
