#!/usr/bin/env python3
"""Writes one prompt per property for a seeding sub-agent (only the property text
and the path of its own scratch worktree), as used for the two rounds recorded
in DESIGN.md 8.4.  usage: mk_seed_prompts.py <outdir> [round2]"""
import json, sys
out = sys.argv[1]
tmpl = open('/verif/tools/seed_prompt.tmpl').read().replace('/tmp/seed/', out.rstrip('/') + '/')
extra = '''

ADDITIONAL CONSTRAINT (second, independent round): other engineers have already produced the most obvious change for this property. Choose a site that is NOT the most obvious one: for instance the mechanism listed LAST among the property's anchors, a file other than the first anchor file, a different crate that participates in the same guarantee, or a rarely used option that routes through different code (--null-data, --crlf, --multiline, --invert-match, --passthru, --only-matching, --replace, --max-columns, --json, --sort, --max-depth, --follow, --one-file-system, --no-ignore-*, --encoding, --search-zip, --pre-glob, --byte-offset, --vimgrep, --context-separator, --null, --files-without-match, --count-matches ...), whichever applies to this property. The violation should still be a clean semantic one (wrong result), not a crash.
''' if len(sys.argv) > 2 else ''
for line in open('/verif/properties.jsonl'):
    p = json.loads(line)
    open('%s/%s.prompt.txt' % (out, p['id']), 'w').write(
        tmpl.replace('@ID@', p['id']).replace('@PROPERTY@', json.dumps(p, indent=1)) + extra)
