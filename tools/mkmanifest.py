#!/usr/bin/env python3
"""Regenerate /verif/MANIFEST.json from the table below (kept in one place so
that the manifest is always valid and consistent with the checks built)."""

import json
import os
import subprocess

VERIF = os.path.dirname(os.path.dirname(os.path.abspath(__file__)))

# property id -> (built?, level, technique, level text, level note, design ref)
TABLE = {
    "C01": (True, "exploration",
            "runtime monitoring: recorded Sink::matched events and rg stdout vs an executable per-line oracle (differential against the regex engine), seeded generated workloads",
            "Held on the generated (pattern, flags, input) cases described in the evidence: every reported and every unreported line of every case is judged by an independent oracle, through the fast path, the slow path, the incremental reader and the rg binary. Exploration, not proof: reach comes from language-directed input generation.",
            "The oracle is regex-automata's PikeVM (plain NFA simulation, none of the optimisations ripgrep's matcher runs on) over the pattern wrapped per the flag documentation; disagreements between that and the optimised engine are classified as the recorded regex-library finding.",
            "DESIGN.md §3 C01"),
    "C02": (True, "exploration",
            "runtime monitoring: differential comparison of recorded Sink event logs across search strategies (slice / scripted readers with hooked buffer capacity / heap limit / file / mmap / multi-line requested), each on a fresh or a previously used Searcher (completed, stopped or failed earlier search), plus mmap vs no-mmap vs stdin at the CLI and valgrind memcheck in the thorough tier",
            "Held on the generated (input, configuration, read history, buffer capacity) cases: all strategies delivered event logs identical to search_slice. The evidence counts how many reader legs actually had to roll and to grow their buffer.",
            "Roll buffer capacity is set through the verif-hooks knob (growth policy unchanged); binary detection off.",
            "DESIGN.md §3 C02"),
    "C03": (True, "exploration",
            "runtime monitoring: recorded Sink event streams and rg stdout checked online against an executable grep reference model, plus pure log invariants (ordering, uniqueness, monotone offsets)",
            "Held on the generated gap-pattern cases: every event (kind, bytes, offset, line number, separators, final byte count) equals the model's, under slice, tiny-buffer reader and a third strategy, and in rg's text output.",
            "The per-line match verdicts come from the C01 oracle; context kind is left open where a line is both after- and before-context.",
            "DESIGN.md §3 C03"),
    "C04": (True, "exploration",
            "runtime differential monitoring against an executable specification: rg --files vs git ls-files --others --exclude-standard on generated repositories (trees and .gitignore files over the gitignore grammar), with git check-ignore attribution in the witness",
            "Held on the generated repositories: rg and git list exactly the same files, across literals, wildcards, classes, '**' forms, anchoring, directory-only patterns, negation, escapes, comments, trailing blanks, nested ignore files and case-insensitive matching.",
            "git 2.39 is the specification; constructs where git itself deviates from gitignore(5) or that globset documents as unsupported are outside the generated grammar (listed in the evidence assumptions).",
            "DESIGN.md §3 C04"),
    "C05": (True, "exploration",
            "runtime monitoring of rg --files on generated trees against an executable model of the documented precedence (overrides > .rgignore > .ignore > .gitignore > .git/info/exclude > global > --ignore-file; repository gating; parents; types; hidden), with conflicting rules planted across sources; evidence counts how often each ordered pair of sources was decisive",
            "Held on the generated (tree, rule placement, flag set, root form) cases: the files rg lists are exactly those the documented decision procedure keeps; every ordered pair of sources decided many cases (counts in the evidence).",
            "The model encodes my reading of the documentation (ignore crate WalkBuilder docs + rg flag docs); undocumented corners are not generated (listed in the evidence assumptions); rule shapes are restricted so that glob semantics (C04/C12) do not interfere.",
            "DESIGN.md §3 C05"),
    "C06": (True, "exploration",
            "runtime monitoring: entries recorded from WalkBuilder::build(), from build_parallel() at several thread counts, and from an independent std::fs recursion, compared as multisets on generated trees and option combinations",
            "Held on the generated trees x option combinations: serial and parallel walkers yielded identical duplicate-free (path, depth) multisets, equal to the independent listing where no ignore rules are involved, and link cycles produced loop errors while the walk ended.",
            "Error entries compared only through the loop requirement; same_file_system cannot be exercised across devices in this sandbox (single file system) although its code path runs.",
            "DESIGN.md §3 C06"),
    "C07": (True, "exploration",
            "runtime monitoring under a controlled scheduler: the ignore verif-hooks yield points park every worker, a seeded policy (uniform / PCT / starvation) releases one at a time; visitor log checked for exactly-once / no-duplicates, hook trace checked for bounded progress and a livelock signature; plus a systematic sweep (every priority order, a preemption at every hook step, at every pair of steps in the thorough tier, Quit at every visit index, on tiny trees), real-thread stress with injected delays, ThreadSanitizer and Miri legs in the thorough tier",
            "Held on the scheduled interleavings explored (the evidence reports the number of distinct schedules, steals, idle transitions and quit-while-work-queued situations observed): no entry lost or duplicated, every walk ended within the step bound, also with Quit injected at each visit index.",
            "Liveness restated as bounded progress under fair seeded schedules; hook granularity; exhaustive only up to preemption bound 1 (quick) / 2 (thorough) on the tiny sweep trees, sampled beyond.",
            "DESIGN.md §3 C07, §5"),
    "C08": (True, "exploration",
            "runtime monitoring of rg -jN vs rg -j1 on generated trees under perturbed timing (files of very different size, a sleeping --pre on a random subset): outputs parsed into per-file blocks (NUL-delimited paths / heading blocks / JSON begin..end) and compared as multisets, with contiguity, separator and exit-status checks; trees carry links, hidden files and nested ignore files, command lines carry walk options and up to 20 roots; a --crlf / --null-data heading leg; --sort compared byte for byte across repetitions; TSan binary in the thorough tier",
            "Held on the generated trees x modes x thread counts x repetitions: every multi-threaded output was a permutation of the single-threaded per-file blocks (apart from one listed known finding: the terminator of the line between files under --crlf / --null-data); the evidence reports how many distinct block orders were actually observed.",
            "The OS scheduler chooses the interleavings; reach comes from size skew and the slow preprocessor, not from controlled scheduling.",
            "DESIGN.md §3 C08"),
    "C09": (True, "exploration",
            "runtime monitoring of rg's text and JSON output: every printed record is parsed back into (line number, column, offset, text) and checked against the file through an independent line splitter and the reference regex engine; JSON messages checked for slice-exactness, text/base64 choice, offsets and message grammar",
            "Held on the generated cases x output modes: printed text = the file's line at the printed number, offsets and columns identify the line and its leftmost match, JSON lines/submatches are exact slices (text iff valid UTF-8), --passthru reproduces the input, messages form begin (match|context)* end.",
            "Lines hit by the regex-engine quirk recorded under C01 (Unicode word boundary next to invalid UTF-8) are skipped for the column check; column checked on the first line of a multi-line block only.",
            "DESIGN.md §3 C09"),
    "C10": (True, "exploration",
            "runtime metamorphic monitoring: the same search is run under default, --count, --count-matches, --only-matching, -l, --files-without-match, -q, --json, --stats and --files, and the per-file numbers and file sets are checked against the relations stated in the property",
            "Held on the generated trees x patterns (incl. empty-matching patterns, anchors, word boundaries) x flags, apart from one listed known finding (-U together with -m N): counts, record numbers, JSON match/submatch numbers, file lists, exit statuses and --stats totals agree.",
            "No external oracle: only rg vs rg. Text files without NUL bytes. Under -U the -o record count is not compared and --count may follow either of two documented readings.",
            "DESIGN.md §3 C10"),
    "C11": (True, "exploration",
            "runtime monitoring of the built RegexMatcher's promises (line_terminator, non_matching_bytes, find_candidate_line, is_match) against a reference engine on language-directed and exhaustive small-alphabet lines; the two grep-regex HIR hooks steer the sampler",
            "No witness found among the lines produced: terminator never inside a match, language over terminator-free lines unchanged, declared non-matching bytes never inside a match, candidate search never passes over a matching line; patterns requiring the terminator were rejected. The 'over ALL lines' quantifier is only approximated (see level_note).",
            "The statement quantifies over all lines per pattern; a monitor can refute it with a witness but cannot decide it. The automata-product decision procedure mentioned in the quantifier is a different technique family and deliberately not built; claim = held on the sampled and exhaustively enumerated short lines.",
            "DESIGN.md §3 C11, §5"),
    "C12": (True, "exploration",
            "runtime differential monitoring: GlobSet::matches / is_match vs the individually compiled GlobMatchers, each glob vs an independent backtracking matcher written from the documentation, and each glob with an alternate group vs the union of the globs obtained by substituting its branches, over exhaustively enumerated globs and paths of a small alphabet plus literal families (incl. multi-byte characters)",
            "Held on every (glob, path) pair of the enumerated space (all token sequences to the tier's bound x all paths over {a,b,.,/,-,A} to the bound, plus random longer and non-UTF-8 paths): set answers = member answers, compiled glob = documented meaning wherever the documentation is unambiguous.",
            "Oracle 2 is only as good as my reading of the globset documentation; readings the docs leave open are evaluated both ways and skipped when they differ.",
            "DESIGN.md §3 C12"),
    "C13": (True, "exploration",
            "runtime monitoring: flattened Sink event streams of the multi-line strategies and rg -U stdout checked against a whole-input reference model (successive leftmost matches via the regex engine with look-around over the full input, mapped to covered lines, then the C03 grep model)",
            "Held on the generated multi-line cases (patterns crossing lines, anchors and word boundaries next to the terminator, branches that start where the previous match ended, empty matches, dotall, CRLF, inversion, context): reported lines = covered lines, each once, in order.",
            "Block partition is not compared. Skipped and counted as outside the whole-input reading: a match boundary strictly inside a CRLF terminator, and patterns with a Unicode word boundary on invalid UTF-8 whose verdict depends on how much of the input the regex sees (recorded under C01).",
            "DESIGN.md §3 C13"),
    "C14": (True, "exploration",
            "runtime monitoring: output bytes of the real Standard printer attached to every search strategy (hooked buffer capacities, scripted read fragmentation) and of the rg binary (implicit/explicit/--binary/stdin, mmap on/off, output modes) (fresh and previously used searchers) checked for NUL bytes, prefix relation with --text results, notices, binary_data coordinates; ASan build in the thorough tier",
            "Held on the generated NUL placements (offset 0, in/after matching lines, 64 KiB boundary, beyond several buffers, last byte) under quit and convert detection for all strategies: no NUL reached the output, printed lines were a prefix of the --text results, warnings/notices appeared exactly when required.",
            "--text output is the reference here (itself judged by C01/C03). Which lines before the first NUL are printed is strategy dependent; only prefix-ness is demanded.",
            "DESIGN.md §3 C14"),
    "C15": (True, "fault_enumeration",
            "runtime monitoring with fault injection at the process boundary: rg run as an unprivileged uid over trees with planted unreadable files/directories, dangling links, an open-ok/read-fails link, missing explicit paths, invalid arguments, and a reader that closes stdout after k bytes for enumerated k; status, stdout and stderr checked against a small status model and against the same run without the faulty entries",
            "For each generated tree the planted fault set is run through every mode and thread count (thorough) and the pipe is closed at every k up to 400 plus samples beyond; exit status, diagnostics naming each fault, unchanged results of the other files, status 2 with empty stdout for invalid arguments, and status 0 / empty stderr after a broken pipe held on all of them.",
            "Files vanishing between listing and open are not covered (cannot be timed from outside); -q leaves stderr unconstrained.",
            "DESIGN.md §3 C15"),
    "C16": (True, "fault_enumeration",
            "runtime monitoring with fault injection: scripted Sink (false / Err at event k) and scripted Read (error / Interrupted at read j) enumerated over every k and j of each case, logs checked offline for the prefix relation; rg -m N (standard and JSON printers) vs the grep model",
            "For each generated case every stopping point of the result stream and every read index is enumerated (fully for logs up to the tier's bound, sampled with boundaries beyond); prefix-ness, exactly-one-finish-after-stop, no-finish-after-error and error propagation held on all of them.",
            "Interrupted reads may be retried or surfaced; byte_count after a stop is unconstrained.",
            "DESIGN.md §3 C16"),
    "C17": (True, "exploration",
            "runtime monitoring: Sink event logs of searches over encoded bytes (every strategy, scripted read histories splitting code units and the BOM, hooked buffer capacities) compared with the log of search_slice over an independent one-shot reference transcoding; rg vs rg-on-transcoding at the CLI",
            "Held on the generated (text, encoding, label/BOM, fragmentation, capacity) cases apart from three listed known findings that live in the third-party transcoding crates: the event log over the encoded input equals the log over its reference UTF-8 transcoding.",
            "Reference transcoder: own WHATWG UTF-16 decoder, encoding_rs one-shot for windows-1252 / shift_jis.",
            "DESIGN.md §3 C17"),
    "C18": (True, "fault_enumeration",
            "runtime monitoring with fault injection through a generated --pre command whose behaviour (exit status, fault point, stderr volume, transform, kill) is configured per file, and through valid / truncated gzip, bzip2 and xz inputs under -z; rg's stdout, stderr and status compared with rg on the bytes the command actually wrote",
            "The matrix exit status x fault point x stderr volume is enumerated (thorough) for each early-stop mode and thread count: successful commands' results equal the search of their output under the original path, unselected files are searched directly, consumed-and-failing or missing commands are reported with status 2, early-stopped commands with empty stderr are not, 4 MB of stderr never blocked.",
            "Early stop with non-empty stderr and a failing status is unconstrained (documented ambiguity). lz4/zstd/brotli tools are not installed.",
            "DESIGN.md §3 C18"),
    "C19": (True, "exploration",
            "runtime differential monitoring: rg -r / -o -r / context / --column / -U --passthru output vs regex::bytes::Regex::replace_all and Captures::expand computed per line by the harness (which links the same regex crate version)",
            "Held on the generated (pattern with groups, template, input, flags) cases apart from one listed known finding (braced references with odd names): replaced lines, per-match expansions, untouched non-matching lines, columns and the multi-line whole-input replacement agree with the library.",
            "regex 1.10.6 is the specification. Under -U, matches that swallow the terminator ending their block and an empty match after the final terminator are outside what whole-input replace_all can express and are not compared.",
            "DESIGN.md §3 C19"),
}

PENDING_REASON = "check under construction in this round; not claimed yet (see DESIGN.md for the planned monitor)"

ENGINES = [
    {"name": "rgmon", "path": "harness/", "kind_free_text": "Rust harness linking ripgrep's library crates (hooks on): recording sinks/readers/visitors, reference models, offline log checkers, hook-driven scheduler",
     "serves_properties": []},
    {"name": "cli", "path": "cli/", "kind_free_text": "Python stdlib black-box monitors over the rg binary built from /repo (hooks off), oracles: git, rgmon ref, metamorphic relations, small models",
     "serves_properties": []},
]


def hook_commits():
    try:
        out = subprocess.run(["git", "-C", "/repo", "log", "--format=%H %s"],
                             stdout=subprocess.PIPE, text=True).stdout
    except Exception:
        return []
    return [l.split()[0] for l in out.splitlines() if " verif-hooks:" in l]


def main():
    props = []
    with open(os.path.join(VERIF, "properties.jsonl")) as f:
        for line in f:
            if line.strip():
                props.append(json.loads(line)["id"])
    checks = []
    na = []
    for pid in props:
        ent = TABLE.get(pid)
        if not ent or not ent[0]:
            na.append({"property_id": pid, "reason": (ent[2] if ent and len(ent) == 3 else PENDING_REASON)})
            continue
        _, level, technique, text, note, ref = ent
        checks.append({
            "property_id": pid,
            "quick_cmd": "./check %s quick" % pid,
            "thorough_cmd": "./check %s thorough" % pid,
            "evidence_file": "/verif/evidence/%s.json" % pid,
            "replay_cmd_template": "./check replay %s {path}" % pid,
            "engine": "rgmon+cli",
            "level_claimed": {"category": level, "text": text, "design_ref": ref},
            "level_note": note,
            "technique": technique,
        })
    man = {
        "version": 1,
        "setup_cmd": "./check setup",
        "hooks": {
            "guard": "cargo feature `verif-hooks` (grep-searcher, grep-regex, ignore), off by default",
            "enable": "the harness crate /verif/harness depends on /repo/crates/{searcher,regex,ignore} by path with features=[\"verif-hooks\"]; the rg binary used by the CLI monitors is built with the feature off",
            "baseline_off_cmd": "cd /repo && cargo test --workspace --no-fail-fast --offline",
            "source_commits": hook_commits(),
            "add_only": True,
        },
        "engines": ENGINES,
        "checks": checks,
        "not_applicable": na,
        "notes": "Technique family: runtime monitoring and sanitizers. Known findings: /verif/known_findings.json (keyed by checker-computed signature). Exit 3 = check broken (observed too little), never a verdict.",
    }
    with open(os.path.join(VERIF, "MANIFEST.json"), "w") as f:
        json.dump(man, f, indent=1)
    print("wrote MANIFEST.json: %d checks, %d not_applicable" % (len(checks), len(na)))


if __name__ == "__main__":
    main()
