#!/bin/bash
# usage: tools/retry_seed.sh <seeded-dir-name> <tier> <checks...>
# re-runs checks against a stored seeded change after a check was strengthened;
# the first attempt's output is kept as checks_<tier>_first_attempt.txt
set -u
D=/verif/seeded/$1; T=$2; shift 2
[ -f "$D/checks_$T.txt" ] && [ ! -f "$D/checks_${T}_first_attempt.txt" ] && mv "$D/checks_$T.txt" "$D/checks_${T}_first_attempt.txt"
bash /verif/tools/try_seed.sh "$D/patch.diff" "$T" "$@" 2>&1 | tee "$D/checks_$T.txt" | grep -E "^---|^C[0-9]+ " | cut -c1-200
