#!/bin/bash
# usage: tools/try_seed.sh <patch.diff> <tier> <Cxx> [<Cyy> ...]
# applies a seeded change to /repo, runs the given checks, and undoes it straight afterwards.
set -u
P=$1; T=$2; shift 2
cd /verif
git -C /repo diff --quiet || { echo "/repo is dirty"; exit 2; }
git -C /repo apply "$P" || { echo "patch does not apply"; exit 2; }
for c in "$@"; do
  out=$(./check "$c" "$T" 2>&1 | grep -E "^VIOLATION|^KNOWN|^C[0-9]+ (quick|thorough)|signature=|CHECK-BROKEN" | cut -c1-260)
  echo "--- $c:"; echo "$out"
done
git -C /repo checkout -- .
git -C /repo status --short | grep -v '^??' | head -3
