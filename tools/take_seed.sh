#!/bin/bash
# usage: tools/take_seed.sh <Cxx> <name> <tier> <checks...>
# confirm the seeded change in its scratch worktree, store it under /verif/seeded/<Cxx>-<name>/, run the checks against it.
set -u
ID=$1; NAME=$2; TIER=$3; shift 3
W=${SEEDROOT:-/tmp/seed}/$ID
D=/verif/seeded/$ID-$NAME
bash /verif/tools/confirm_seed.sh "$W" 2>&1 | tee /tmp/confirm.$ID.log | tail -6
mkdir -p "$D"
cp "$W"/SEEDED/patch.diff "$W"/SEEDED/meta.json "$D"/
for f in "$W"/SEEDED/*; do
  case "$(basename "$f")" in suite.log|demo_with.log|demo_without.log|patch.diff|meta.json) ;; *) cp -r "$f" "$D"/ ;; esac
done
cp /tmp/confirm.$ID.log "$D"/confirmed.txt
bash /verif/tools/try_seed.sh "$D"/patch.diff "$TIER" "$@" 2>&1 | tee "$D"/checks_$TIER.txt | grep -E "^---|^C[0-9]+ |VIOLATION|KNOWN" | cut -c1-200
